#!/bin/bash
# usage: file_seed.sh <worktree> <seed-name> <property> <change> <needs>
# writes seeded/<name>/meta.json from verification.log (made by verify_seed.sh) and removes the worktree
WT=$1; NAME=$2; PROP=$3; CHANGE=$4; NEEDS=$5
OUT=/verif/seeded/$NAME
RES=$(grep '^RESULT' $OUT/verification.log | tail -1)
BASE=$(git -C $WT rev-parse --short HEAD)
python3 - "$OUT" "$PROP" "$CHANGE" "$NEEDS" "$RES" "$BASE" <<'PY'
import json, sys, os
out, prop, change, needs, res, base = sys.argv[1:7]
json.dump({"property": prop, "change": change, "needs_to_manifest": needs,
  "produced_by": "independent sub-agent given only the property text and a scratch git worktree of /repo (no access to /verif)",
  "confirmed_by": "lib/verify_seed.sh in the scratch worktree: demo fails with the change, the unedited test-suite passes with the change, demo passes without it",
  "verification_result": res, "base_commit": base,
  "files": sorted(f for f in os.listdir(out) if f != "meta.json")}, open(os.path.join(out, "meta.json"), "w"), indent=1)
PY
git -C /repo worktree remove --force $WT && echo "removed $WT"
