//@@ property: C01
//@@ crate: types
//@@ mount: pocket-types/src/lib.rs
// Event::from_json against the parts a text was rendered from.  Every skeleton in
// texts.rs is checked at generation time (lib/gen_texts.py) to be valid JSON denoting
// those parts for an independent parser (Python's json module); the harnesses then make
// *value* bytes symbolic (hex digits, decimal digits, string bytes) and compute what the
// patched text denotes.
use crate::Event;
include!("common.rs");
include!("texts.rs");
include!("jsonsym.rs");

macro_rules! ev_layout {
    ($name:ident, $T:ident, $ID:ident, $PK:ident, $SIG:ident, $KIND:ident, $kd:expr, $AT:ident, $ad:expr, $C:ident, $TV:ident, $end:expr) => {
        #[kani::proof]
        #[kani::unwind(32)]
        #[kani::stub(core::panic::Location::caller, stub_caller)]
        fn $name() {
            const N: usize = $T.len();
            let mut t = [0u8; N + 2];
            t[..N].copy_from_slice($T);
            t[N] = kani::any(); // arbitrary bytes after the object
            t[N + 1] = kani::any();
            let e = patch_values(&mut t, $ID, $PK, $SIG, $KIND, $kd, $AT, $ad, $C, $TV);
            let mut out: [u8; 200] = kani::any();
            let r = Event::from_json(&t, &mut out);
            let fits = e.kind <= 65535 && e.at <= u64::MAX as u128;
            match r {
                Ok((consumed, ev)) => {
                    kani::cover!(e.kind == 65535);
                    assert!(fits); // never wrapped
                    assert!(consumed == $end);
                    check_event(ev, &e);
                }
                Err(err) => {
                    kani::cover!(e.kind == 65536);
                    assert!(!fits);
                    core::mem::forget(err);
                }
            }
        }
    };
}

//@ harness: c01_values_compact
//@ tier: quick
//@ timeout: 1800
//@ mem: 14
//@ unwindset: read_sig=66; read_id=34; read_pubkey=34; read_hex=66; memcmp.0=34
//@ encodes: Event::from_json, parse_json_event, read_id, read_pubkey, read_sig, read_kind, read_u64, read_tags_array, read_content, json_unescape
//@ bounds: compact text, order id,pubkey,created_at,kind,tags,content,sig; symbolic: first+last hex digit of id/pubkey/sig (either case), all 5 kind digits, all 10 created_at digits, first content byte, first byte of a tag value, 2 trailing bytes after the object, prior buffer contents. Accepted iff kind <= 65535; consumed = offset past the brace; every accessor equals the denoted part
//@ outside: other string bytes / digits concrete; texts longer than ~600 bytes
ev_layout!(c01_values_compact, L1, L1_ID, L1_PK, L1_SIG, L1_KIND, 5, L1_AT, 10, L1_CONTENT, L1_TAGV, L1.len());

//@ harness: c01_values_ws_unknown_deferred
//@ tier: quick
//@ timeout: 2400
//@ mem: 16
//@ unwindset: read_sig=66; read_id=34; read_pubkey=34; read_hex=66; memcmp.0=34
//@ encodes: Event::from_json, parse_json_event (deferred content), burn_key_and_value, burn_value, burn_object, burn_array, burn_string, burn_number, eat_whitespace, next_object_field
//@ bounds: 573-byte text, order kind,content,sig,tags,created_at,pubkey,id (content before tags: deferred), all four whitespace bytes in every gap incl. inside the tag arrays, three unknown members (first: string with escapes and brackets; middle: negative exponent number and nested arrays/objects with true/false/null; last: object whose keys look like event members); same symbolic value bytes as c01_values_compact
//@ outside: whitespace/unknown-member *shapes* are one concrete layout per harness (a symbolic shape moves the read position: > 37 min in the probes)
ev_layout!(c01_values_ws_unknown_deferred, L2, L2_ID, L2_PK, L2_SIG, L2_KIND, 5, L2_AT, 10, L2_CONTENT, L2_TAGV, L2_END);

//@ harness: c01_values_ws_tags_last
//@ tier: thorough
//@ timeout: 2400
//@ mem: 16
//@ unwindset: read_sig=66; read_id=34; read_pubkey=34; read_hex=66; memcmp.0=34
//@ encodes: Event::from_json, parse_json_event
//@ bounds: order pubkey,kind,id,content,created_at,sig,tags (tags last, content deferred to the very end), whitespace in every gap, no unknown members; same symbolic value bytes
ev_layout!(c01_values_ws_tags_last, L3, L3_ID, L3_PK, L3_SIG, L3_KIND, 5, L3_AT, 10, L3_CONTENT, L3_TAGV, L3.len() - 1);

//@ harness: c01_order_m1 c01_order_m2 c01_order_m3 c01_order_m4 c01_order_m5 c01_order_m6 c01_order_m7
//@ tier: seeded
//@ group: member_order
//@ timeout: 1800
//@ mem: 14
//@ unwindset: read_sig=66; read_id=34; read_pubkey=34; read_hex=66; memcmp.0=34
//@ encodes: Event::from_json, parse_json_event (member dispatch, 7-byte look-ahead, duplicate flags, deferred content)
//@ bounds: seven compact member orders in which each member is last once and content precedes/follows tags (m1 ...,sig; m2 ...,id; m3 ...,content; m4 ...,created_at; m5 ...,kind; m6 ...,tags; m7 ...,pubkey); same symbolic value bytes as c01_values_compact
//@ outside: the other 5033 member orders (the order-dependent parser state is only `tags seen before content` and `which member is last`; that these seven cover it is an argument by reading)
ev_layout!(c01_order_m1, M1, M1_ID, M1_PK, M1_SIG, M1_KIND, 5, M1_AT, 10, M1_CONTENT, M1_TAGV, M1.len());
ev_layout!(c01_order_m2, M2, M2_ID, M2_PK, M2_SIG, M2_KIND, 5, M2_AT, 10, M2_CONTENT, M2_TAGV, M2.len());
ev_layout!(c01_order_m3, M3, M3_ID, M3_PK, M3_SIG, M3_KIND, 5, M3_AT, 10, M3_CONTENT, M3_TAGV, M3.len());
ev_layout!(c01_order_m4, M4, M4_ID, M4_PK, M4_SIG, M4_KIND, 5, M4_AT, 10, M4_CONTENT, M4_TAGV, M4.len());
ev_layout!(c01_order_m5, M5, M5_ID, M5_PK, M5_SIG, M5_KIND, 5, M5_AT, 10, M5_CONTENT, M5_TAGV, M5.len());
ev_layout!(c01_order_m6, M6, M6_ID, M6_PK, M6_SIG, M6_KIND, 5, M6_AT, 10, M6_CONTENT, M6_TAGV, M6.len());
ev_layout!(c01_order_m7, M7, M7_ID, M7_PK, M7_SIG, M7_KIND, 5, M7_AT, 10, M7_CONTENT, M7_TAGV, M7.len());

//@ harness: c01_int_created_at_20
//@ tier: quick
//@ timeout: 1800
//@ mem: 14
//@ unwindset: read_sig=66; read_id=34; read_pubkey=34; read_hex=66; memcmp.0=34
//@ encodes: read_u64, Event::from_json
//@ bounds: created_at written with 20 arbitrary digits (no leading zero): accepted iff the value < 2^64, then created_at() is that value - never wrapped, never a panic; plus the other symbolic value bytes
ev_layout!(c01_int_created_at_20, N20, N20_ID, N20_PK, N20_SIG, N20_KIND, 5, N20_AT, 20, N20_CONTENT, N20_TAGV, N20.len());

//@ harness: c01_int_created_at_19
//@ tier: thorough
//@ timeout: 1800
//@ mem: 14
//@ unwindset: read_sig=66; read_id=34; read_pubkey=34; read_hex=66; memcmp.0=34
//@ encodes: read_u64, Event::from_json
//@ bounds: created_at written with 19 arbitrary digits: always accepted with the exact value
ev_layout!(c01_int_created_at_19, N19, N19_ID, N19_PK, N19_SIG, N19_KIND, 5, N19_AT, 19, N19_CONTENT, N19_TAGV, N19.len());

//@ harness: c01_int_kind_6
//@ tier: quick
//@ timeout: 1800
//@ mem: 14
//@ unwindset: read_sig=66; read_id=34; read_pubkey=34; read_hex=66; memcmp.0=34
//@ covers: none
//@ encodes: read_kind, Event::from_json
//@ bounds: kind written with 6 arbitrary digits (no leading zero, so >= 100000): always rejected, never wrapped into a u16, never a panic
ev_layout!(c01_int_kind_6, K6, K6_ID, K6_PK, K6_SIG, K6_KIND, 6, K6_AT, 10, K6_CONTENT, K6_TAGV, K6.len());

//@ harness: c01_string_escapes
//@ tier: quick
//@ timeout: 1800
//@ mem: 14
//@ unwindset: read_sig=66; read_id=34; read_pubkey=34; read_hex=66; memcmp.0=34; json_unescape=64
//@ encodes: json_unescape, next_code_point, encode_utf8, read_content
//@ bounds: content written as \n \" \\ \/ \b \f \r \t é € \u000a followed by literal 2-, 3- and 4-byte characters and `/x`; symbolic: the case of the three hex letters in é and €, and the final literal byte. content() equals the 25 bytes an independent parser extracts (computed at generation time)
//@ outside: surrogate \u escapes (excluded by the property); other strings
#[kani::proof]
#[kani::unwind(32)]
#[kani::stub(core::panic::Location::caller, stub_caller)]
fn c01_string_escapes() {
    const N: usize = LS.len();
    let mut t = *LS;
    // é is at LS_CONTENT+16 (after \n\"\\\/\b\f\r\t = 16 bytes): digits at +18..+22; € follows
    let e1 = LS_CONTENT + 16 + 2 + 2; // the 'e' of 00e9
    let a1 = LS_CONTENT + 22 + 2 + 2; // the 'A' of 20AC
    let c1 = a1 + 1; // the 'C'
    assert!(t[e1] == b'e' && t[a1] == b'A' && t[c1] == b'C');
    let up: [bool; 3] = kani::any();
    t[e1] = if up[0] { b'E' } else { b'e' };
    t[a1] = if up[1] { b'A' } else { b'a' };
    t[c1] = if up[2] { b'C' } else { b'c' };
    let v = any_plain();
    let last = LS_CONTENT + 22 + 6 + 6 + 2 + 3 + 4 + 1; // the 'x'
    assert!(t[last] == b'x');
    t[last] = v;
    let mut out: [u8; 220] = kani::any();
    let r = Event::from_json(&t, &mut out);
    match r {
        Ok((consumed, ev)) => {
            kani::cover!(up[0] && !up[1]);
            assert!(consumed == N);
            let c = ev.content();
            assert!(c.len() == LS_EXPECT.len());
            let i: usize = kani::any();
            kani::assume(i < LS_EXPECT.len());
            if i == LS_EXPECT.len() - 1 {
                assert!(c[i] == v);
            } else {
                assert!(c[i] == LS_EXPECT[i]);
            }
        }
        Err(err) => {
            core::mem::forget(err);
            assert!(false, "valid event text rejected");
        }
    }
}
