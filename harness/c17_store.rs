//@@ property: C17
//@@ crate: db
//@@ mount: pocket-db/src/lib.rs
//@@ also: db_lmdb_helper.rs@pocket-db/src/lmdb/mod.rs, es_helper.rs@pocket-db/src/event_store.rs
use crate::*;
include!("common_db.rs");
include!("img.rs");
include!("store_common.rs");

//@ harness: c17_index_remove_mirror
//@ tier: thorough
//@ timeout: 3000
//@ mem: 20
//@ covers: none
//@ unwindset: put_bytes=80; heed::bytes_=260; heed::Table=6; memcmp.0=70; repeat::Repeat=190; Repeat.*try_fold=190; mmap_append=200; read_hex=34; enc_tags=6
//@ cbmc: --max-field-sensitivity-array-size 1100
//@ encodes: Store::store_event, Lmdb::index, Store::remove_event, Lmdb::deindex, Lmdb::deindex_id, Lmdb::stats
//@ bounds: fresh store; one event (kind 1, created_at arbitrary in 4096..=4351: one arbitrary byte) with the tags [e ab] [ee x] [p] [e ab]: a repeated indexable tag, a two-letter name, a name without value. After the store the id/time/author/author-kind indexes hold 1 entry each and the three tag indexes 1 each (the repeated tag shares its key); after remove_event every index count is 0 and the event is not retrievable
//@ outside: histories; values longer than 182 bytes
store_harness!(c17_index_remove_mirror, {
    let store = verif_store();
    let lo: u8 = kani::any();
    let t: u64 = 0x1000 + lo as u64;
    let mut b = [0u8; 220];
    let n = enc_event_img(1, t, &ID_A, &PK_1, &SIG_0, &[&[1, 2], &[2, 1], &[1], &[1, 2]], b"eabeexpeab", b"", &mut b);
    assert!(outcome(store.store_event(as_event(&b[..n]))) == Outcome::Stored);
    let s = ok!(store.stats());
    let ix = &s.index_stats;
    assert!(ix.i_index_entries == 1 && ix.ci_index_entries == 1 && ix.ac_index_entries == 1 && ix.akc_index_entries == 1);
    assert!(ix.tc_index_entries == 1 && ix.atc_index_entries == 1 && ix.ktc_index_entries == 1);
    assert!(ix.deleted_index_entries == 0 && ix.deleted_naddr_index_entries == 0);
    core::mem::forget(s);
    ok!(store.remove_event(Id::from_bytes(ID_A)));
    assert!(!has(&store, &ID_A));
    let s2 = ok!(store.stats());
    let iy = &s2.index_stats;
    assert!(iy.i_index_entries == 0 && iy.ci_index_entries == 0 && iy.ac_index_entries == 0 && iy.akc_index_entries == 0);
    assert!(iy.tc_index_entries == 0 && iy.atc_index_entries == 0 && iy.ktc_index_entries == 0);
    assert!(iy.deleted_index_entries == 0);
    core::mem::forget(s2);
    core::mem::forget(store);
});

//@ harness: c17_index_deindex_mirror_lmdb
//@ tier: thorough
//@ timeout: 2400
//@ mem: 16
//@ covers: any
//@ unwindset: put_bytes=80; heed::bytes_=260; heed::Table=6; memcmp.0=70; repeat::Repeat=190; Repeat.*try_fold=190; mmap_append=200; enc_tags=6
//@ cbmc: --max-field-sensitivity-array-size 1100
//@ encodes: EventStore::store_event, Lmdb::index, Lmdb::deindex, Lmdb::deindex_id, Lmdb::stats (through Store::stats)
//@ bounds: one event (kind 7, created_at arbitrary in 4096..=4351: one arbitrary byte) with the tags [L v(2 arbitrary bytes)] [q] [ ] - L an ARBITRARY one-byte tag name (either case, digits, any byte) - indexed with Lmdb::index and removed with Store::remove_event: counts 1/1/1/1 and 1/1/1 for the tag indexes after indexing (value-less and empty tags are not indexed), all zero after removal
store_harness!(c17_index_deindex_mirror_lmdb, {
    let store = verif_store();
    let lo: u8 = kani::any();
    let t: u64 = 0x1000 + lo as u64;
    let v: [u8; 2] = kani::any();
    // the tag name is ANY byte (lower case, upper case, digit, anything): whatever index() decides to
    // enter for it, deindex() has to remove
    let letter: u8 = kani::any();
    let pool = [letter, v[0], v[1], b'q'];
    let mut b = [0u8; 200];
    let n = enc_event_img(7, t, &ID_C, &PK_2, &SIG_0, &[&[1, 2], &[1], &[]], &pool, b"", &mut b);
    let _ = seed_stored(&store, as_event(&b[..n]));
    let s = ok!(store.stats());
    let ix = &s.index_stats;
    assert!(ix.i_index_entries == 1 && ix.ci_index_entries == 1 && ix.ac_index_entries == 1 && ix.akc_index_entries == 1);
    assert!(ix.tc_index_entries == 1 && ix.atc_index_entries == 1 && ix.ktc_index_entries == 1);
    kani::cover!(letter == b'P');
    core::mem::forget(s);
    ok!(store.remove_event(Id::from_bytes(ID_C)));
    let s2 = ok!(store.stats());
    let iy = &s2.index_stats;
    assert!(iy.i_index_entries == 0 && iy.ci_index_entries == 0 && iy.ac_index_entries == 0 && iy.akc_index_entries == 0);
    assert!(iy.tc_index_entries == 0 && iy.atc_index_entries == 0 && iy.ktc_index_entries == 0);
    assert!(!has(&store, &ID_C));
    core::mem::forget(s2);
    core::mem::forget(store);
});
