//@@ property: C09
//@@ crate: db
//@@ mount: pocket-db/src/lmdb/mod.rs
//@@ also: db_lmdb_helper.rs@pocket-db/src/lmdb/mod.rs
// Address separation in the author+tag index: which (author, 'd', value) scans can see which
// entries.  Store::find_parameterized_replaceable_event_inner and
// Store::remove_parameterized_replaceable take every entry such a scan yields (filtered by kind
// only) as an event AT the address, so an entry visible under another d value is a collision of
// two addresses.
use super::*;
include!("common_db.rs");

fn lmdb() -> Lmdb {
    super::verif_db_lmdb_helper::verif_lmdb()
}

/// one atc entry for (author, 'd', v1); is it visible to the full-window scan for (author2, 'd', v2)?
fn visible(l: &Lmdb, au1: [u8; 32], v1: &[u8], au2: [u8; 32], v2: &[u8]) -> bool {
    let t: u64 = kani::any();
    let id: [u8; 32] = kani::any();
    {
        let mut wtxn = ok!(l.write_txn());
        let key: Vec<u8> = Lmdb::key_atc_index(Pubkey::from_bytes(au1), b'd', v1, Time::from_u64(t), Id::from_bytes(id));
        ok!(l.atc_index.put(&mut wtxn, &key, &77u64));
        ok!(wtxn.commit());
        core::mem::forget(key);
    }
    // ids ff..ff at the window edge are the documented exception of the c05_iter_bounds family
    kani::assume(id[0] != 0xff);
    let txn = ok!(l.read_txn());
    let found = {
        let mut it = ok!(l.atc_iter(Pubkey::from_bytes(au2), b'd', v2, Time::min(), Time::max(), &txn));
        match it.next() {
            Some(Ok((_k, off))) => {
                assert!(off == 77);
                true
            }
            Some(Err(e)) => {
                core::mem::forget(e);
                panic!("iterator error")
            }
            None => false,
        }
    };
    core::mem::forget(txn);
    found
}

macro_rules! key_harness {
    ($name:ident, $body:expr) => {
        #[kani::proof]
        #[kani::unwind(14)]
        #[kani::stub(core::panic::Location::caller, stub_caller)]
        #[kani::stub(std::hash::RandomState::new, stub_random_state)]
        fn $name() {
            $body
        }
    };
}

//@ harness: c09_atc_d_separation_22 c09_atc_d_separation_12 c09_atc_author_separation
//@ tier: quick
//@ timeout: 700
//@ mem: 16
//@ unwindset: heed::bytes_=260; heed::Table=6; memcmp.0=80; repeat::Repeat=190; Repeat.*try_fold=190; visible=40
//@ cbmc: --max-field-sensitivity-array-size 300
//@ encodes: Lmdb::key_atc_index, Lmdb::atc_iter (182-byte value padding, start/end bound keys), heed model range scan
//@ bounds: one author+tag index entry for (author, 'd', v1) with an arbitrary created_at and id, scanned with the full time window for (author', 'd', v2). _22: same arbitrary author, v1 and v2 two arbitrary 2-byte values: visible iff v1 == v2. _12: v1 one arbitrary byte, v2 two arbitrary bytes: visible iff v2 = v1 followed by NUL (the index pads values with NUL: that one collision is the listed known finding c09_atc_d_trailing_nul; any other visibility is a violation). _author: two arbitrary authors, same arbitrary 2-byte value: visible iff the authors are equal
//@ outside: d values longer than 2 bytes (the 182-byte truncation boundary is recorded by reading in DESIGN.md 8.5); ids whose first byte is ff (documented scan-bound exception of c05_iter_bounds_*)
//@ assumes: heed model: range(Included(a), Excluded(b)) yields exactly the keys a <= k < b in byte-lexicographic order
key_harness!(c09_atc_d_separation_22, {
    let l = lmdb();
    let au: [u8; 32] = kani::any();
    let v1: [u8; 2] = kani::any();
    let v2: [u8; 2] = kani::any();
    let found = visible(&l, au, &v1, au, &v2);
    kani::cover!(found);
    kani::cover!(!found);
    assert!(found == (v1 == v2), "an address with a different d value sees this event");
    core::mem::forget(l);
});
key_harness!(c09_atc_d_separation_12, {
    let l = lmdb();
    let au: [u8; 32] = kani::any();
    let v1: [u8; 1] = kani::any();
    let v2: [u8; 2] = kani::any();
    let found = visible(&l, au, &v1, au, &v2);
    kani::cover!(!found);
    if !(v2[0] == v1[0] && v2[1] == 0) {
        assert!(!found, "an address with a different d value sees this event");
    }
    core::mem::forget(l);
});
key_harness!(c09_atc_author_separation, {
    let l = lmdb();
    let a1: [u8; 32] = kani::any();
    let a2: [u8; 32] = kani::any();
    let v: [u8; 2] = kani::any();
    let found = visible(&l, a1, &v, a2, &v);
    kani::cover!(found);
    kani::cover!(!found);
    assert!(found == (a1 == a2), "another author's address sees this event");
    core::mem::forget(l);
});

//@ harness: c09_atc_d_trailing_nul
//@ tier: quick
//@ timeout: 700
//@ mem: 16
//@ unwindset: heed::bytes_=260; heed::Table=6; memcmp.0=80; repeat::Repeat=190; Repeat.*try_fold=190; visible=40
//@ cbmc: --max-field-sensitivity-array-size 300
//@ encodes: Lmdb::key_atc_index, Lmdb::atc_iter
//@ bounds: the d values "x" and "x\0" (x an arbitrary byte) under one arbitrary author: the entry of one must not be visible to the scan for the other - it is (NUL padding to 182 bytes): listed known finding
key_harness!(c09_atc_d_trailing_nul, {
    let l = lmdb();
    let au: [u8; 32] = kani::any();
    let x: u8 = kani::any();
    let v1 = [x];
    let v2 = [x, 0];
    let found = visible(&l, au, &v1, au, &v2);
    assert!(!found, "d values that differ only by trailing NUL bytes share one index range: two addresses collide");
    core::mem::forget(l);
});
