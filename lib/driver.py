#!/usr/bin/env python3
"""Driver: regenerate the encoding from /repo, run Kani/CBMC per harness, parse,
replay counterexamples natively, write evidence.  See DESIGN.md section 3."""
import argparse, concurrent.futures as cf, hashlib, json, os, re, resource, shutil
import signal, subprocess, sys, threading, time

VERIF = os.path.dirname(os.path.dirname(os.path.abspath(__file__)))
REPO = os.environ.get("VERIF_REPO", "/repo")
SCRATCH_ROOT = os.environ.get("VERIF_SCRATCH", "/var/tmp/pocket-verif")
CACHE = os.path.join(VERIF, ".cache")
HARNESS_DIR = os.path.join(VERIF, "harness")
KNOWN = os.path.join(VERIF, "known_findings.txt")
LINT_ALLOW = ("#[allow(warnings, unreachable_pub, missing_docs, missing_debug_implementations, "
              "missing_copy_implementations, unused_results, unused_qualifications, "
              "trivial_numeric_casts, single_use_lifetimes, unused_lifetimes, unused_imports, dead_code)]")
KANI_BASE = ["-Z", "stubbing", "-Z", "unstable-options", "--no-assertion-reach-checks", "--verbose"]
MEM_BUDGET_GB = int(os.environ.get("VERIF_MEM_GB", "52"))
ENV = dict(os.environ, CARGO_NET_OFFLINE="true", CARGO_TERM_COLOR="never")
ENV.pop("RUSTFLAGS", None)
HOOK_CFG = "mikedilger_pocket_verif"

TRUSTED = [
    "Kani 0.68 MIR->GOTO translation, CBMC 6.11 symex and bit-blasting, CaDiCaL",
    "dev-profile semantics (debug_assertions and overflow checks on), x86-64 little-endian",
    "stub: core::panic::Location::caller -> dummy static (location never observed by a property)",
]


def log(*a):
    print(*a, file=sys.stderr, flush=True)


# ----------------------------------------------------------------------------
# harness registry: parsed from //@@ (file) and //@ (harness) annotations
# ----------------------------------------------------------------------------
class Harness:
    def __init__(self, name, file, meta, fmeta):
        self.name = name
        self.file = file
        self.meta = meta
        self.property = fmeta["property"]
        # a harness may also serve further properties: `//@ serves: C09 C11`
        self.serves = [self.property] + meta.get("serves", "").split()
        self.crate = fmeta.get("crate", "types")
        self.mount = fmeta["mount"]
        self.modname = "verif_" + os.path.splitext(os.path.basename(file))[0]
        self.tier = meta.get("tier", "quick")
        self.timeout = int(meta.get("timeout", "600"))
        self.mem = int(meta.get("mem", "8"))
        self.group = meta.get("group")
        self.args = meta.get("args", "").split()
        self.covers = meta.get("covers", "all")  # all | any | none
        # per-loop unwind bounds: "regex=N; regex=N" matched against CBMC's loop listing
        self.cbmc = meta.get("cbmc", "").split()  # extra CBMC flags, e.g. --max-field-sensitivity-array-size 600
        self.unwindset = [(x.rsplit("=", 1)[0].strip(), int(x.rsplit("=", 1)[1])) for x in meta.get("unwindset", "").split(";") if "=" in x]
        # extra helper modules to mount: "file.rs@pocket-db/src/lmdb/mod.rs, ..."
        self.also = [x.strip().split("@") for x in fmeta.get("also", "").split(",") if x.strip()]

    @property
    def pkg(self):
        return "pocket-types" if self.crate == "types" else "pocket-db"

    @property
    def modpath(self):
        m = re.sub(r"^pocket-[a-z]+/src/", "", self.mount)
        m = re.sub(r"\.rs$", "", m)
        parts = [p for p in m.split("/") if p not in ("lib", "mod")]
        return "::".join(parts + [self.modname])

    @property
    def fq(self):
        return self.modpath + "::" + self.name


def load_registry():
    out = []
    for fn in sorted(os.listdir(HARNESS_DIR)):
        if not fn.endswith(".rs"):
            continue
        path = os.path.join(HARNESS_DIR, fn)
        fmeta, cur, names = {}, None, []
        with open(path) as f:
            lines = f.read().split("\n")
        blocks = []
        for ln in lines:
            m = re.match(r"\s*//@@\s*(\w+):\s*(.*)$", ln)
            if m:
                fmeta[m.group(1)] = m.group(2).strip()
                continue
            m = re.match(r"\s*//@\s*(\w+):\s*(.*)$", ln)
            if m:
                k, v = m.group(1), m.group(2).strip()
                if k == "harness":
                    cur = {"_names": v.split()}
                    blocks.append(cur)
                elif cur is not None:
                    cur[k] = (cur[k] + " " + v) if k in cur and k in ("bounds", "outside", "encodes", "assumes") else v
            else:
                if not re.match(r"\s*//", ln):
                    cur = None
        if "property" not in fmeta or "mount" not in fmeta:
            continue
        for b in blocks:
            for n in b["_names"]:
                out.append(Harness(n, path, {k: v for k, v in b.items() if k != "_names"}, fmeta))
    names = [h.name for h in out]
    dup = {n for n in names if names.count(n) > 1}
    if dup:
        raise SystemExit("duplicate harness names: %s" % dup)
    return out


def select(reg, prop, tier, seed, only):
    hs = [h for h in reg if prop in h.serves]
    if only:
        hs = [h for h in hs if any(o in h.name for o in only)]
        return hs
    chosen = []
    groups = {}
    for h in hs:
        if h.tier == "quick":
            chosen.append(h)
        elif h.tier == "thorough":
            if tier == "thorough":
                chosen.append(h)
        elif h.tier == "seeded":
            if tier == "thorough":
                chosen.append(h)
            else:
                groups.setdefault(h.group or "default", []).append(h)
    for g, members in sorted(groups.items()):
        members.sort(key=lambda h: h.name)
        k = int(os.environ.get("VERIF_SEEDED_K", "1"))
        for j in range(min(k, len(members))):
            idx = int(hashlib.sha256(("%s/%s/%d" % (seed, g, j)).encode()).hexdigest(), 16) % len(members)
            if members[idx] not in chosen:
                chosen.append(members[idx])
    return chosen


# ----------------------------------------------------------------------------
# scratch workspace: a copy of /repo's working tree + appended harness modules
# ----------------------------------------------------------------------------
def make_workspace(run_dir, harnesses, extra_files=None):
    ws = os.path.join(run_dir, "ws")
    os.makedirs(ws, exist_ok=True)
    need_db = any(h.crate == "db" for h in harnesses)
    subprocess.check_call(["rsync", "-a", "--delete", "--exclude", "target",
                           os.path.join(REPO, "pocket-types"), os.path.join(REPO, "pocket-db"),
                           os.path.join(REPO, "Cargo.lock"), ws + "/"])
    hdir = os.path.join(ws, "verif_h")
    os.makedirs(hdir, exist_ok=True)
    for fn in os.listdir(HARNESS_DIR):
        src = os.path.join(HARNESS_DIR, fn)
        if os.path.isfile(src):
            shutil.copy(src, os.path.join(hdir, fn))
    members = ['"pocket-types"'] + (['"pocket-db"'] if need_db else [])
    toml = "[workspace]\nmembers = [%s]\nresolver = \"2\"\n" % ", ".join(members)
    if need_db:
        toml += ("\n[patch.crates-io]\nheed = { path = \"%s\" }\nmmap-append = { path = \"%s\" }\n"
                 % (os.path.join(VERIF, "model", "heed"), os.path.join(VERIF, "model", "mmap-append")))
        # the lock file names registry heed/mmap-append; let cargo re-resolve offline
    with open(os.path.join(ws, "Cargo.toml"), "w") as f:
        f.write(toml)
    mounted = set()
    todo = []
    for h in harnesses:
        todo.append((h.mount, os.path.basename(h.file)))
        for fn, mnt in h.also:
            todo.append((mnt, fn))
    for mount, fn in todo:
        key = (mount, fn)
        if key in mounted:
            continue
        mounted.add(key)
        target = os.path.join(ws, mount)
        if not os.path.exists(target):
            raise SystemExit2("mount point %s no longer exists in /repo" % mount)
        with open(target, "a") as f:
            f.write("\n#[cfg(kani)]\n%s\n#[path = \"%s\"]\npub(crate) mod verif_%s;\n"
                    % (LINT_ALLOW, os.path.join(hdir, fn), os.path.splitext(fn)[0]))
    return ws


class SystemExit2(Exception):
    pass


def seed_target(run_dir, crate):
    """hard-link the dependency build cache made by setup (if any) into this run."""
    tgt = os.path.join(run_dir, "target")
    cache = os.path.join(CACHE, "target-" + crate)
    if os.path.isdir(cache) and not os.path.exists(tgt):
        r = subprocess.call(["cp", "-al", cache, tgt])
        if r != 0:
            shutil.rmtree(tgt, ignore_errors=True)
    return tgt


# ----------------------------------------------------------------------------
# running one harness
# ----------------------------------------------------------------------------
def _limits(mem_gb):
    def f():
        os.setsid()
        b = mem_gb * 1024 ** 3
        resource.setrlimit(resource.RLIMIT_AS, (b, b))
    return f


def run_cmd(cmd, cwd, timeout, mem_gb, logpath, drop=("Unwinding loop", "Not unwinding", "Unwinding recursion"), env=None):
    t0 = time.time()
    if env is None:
        env = env_for("db") if ("pocket-db" in cmd) else ENV
    with open(logpath, "w") as lf:
        p = subprocess.Popen(cmd, cwd=cwd, env=env, stdout=subprocess.PIPE, stderr=subprocess.STDOUT,
                             preexec_fn=_limits(mem_gb), text=True, errors="replace")
        timed_out = [False]

        def killer():
            timed_out[0] = True
            try:
                os.killpg(p.pid, signal.SIGKILL)
            except ProcessLookupError:
                pass
        tm = threading.Timer(timeout, killer)
        tm.start()
        try:
            for line in p.stdout:
                if line.startswith(drop):
                    continue
                lf.write(line)
            p.wait()
        finally:
            tm.cancel()
            try:
                os.killpg(p.pid, signal.SIGKILL)
            except ProcessLookupError:
                pass
    return p.returncode, timed_out[0], time.time() - t0


def env_for(crate):
    e = dict(ENV)
    if crate == "db":
        # hook guard (MANIFEST.hooks): small EVENT_MAP_CHUNK so that the mapped file fits a byte-array model
        e["RUSTFLAGS"] = "--cfg " + HOOK_CFG
    return e


def kani_cmd(h, tgt, extra=()):
    return (["cargo", "kani", "-p", h.pkg, "--harness", h.fq, "--exact", "--target-dir", tgt]
            + KANI_BASE + list(extra) + h.args + getattr(h, "resolved_extra", []))


CHECK_RE = re.compile(r"^Check (\d+): (.+)\n\t - Status: (\w+)\n\t - Description: \"(.*)\"\n\t - Location: (.*)$", re.M)


def parse_log(text):
    r = {"checks": [], "verdict": None, "stats": {}, "errors": []}
    for m in CHECK_RE.finditer(text):
        r["checks"].append({"n": int(m.group(1)), "name": m.group(2), "status": m.group(3),
                            "desc": m.group(4), "loc": m.group(5).strip()})
    m = re.search(r"^VERIFICATION:- (\w+)", text, re.M)
    if m:
        r["verdict"] = m.group(1)
    st = r["stats"]
    for key, pat, conv in [
        ("symex_s", r"Runtime Symex: ([\d.e+-]+)s", float),
        ("steps", r"size of program expression: (\d+) steps", int),
        ("vccs", r"Generated (\d+) VCC\(s\)", int),
        ("vccs_remaining", r"VCC\(s\), (\d+) remaining", int),
    ]:
        mm = re.findall(pat, text)
        if mm:
            st[key] = conv(mm[-1])
    mm = re.findall(r"(\d+) variables, (\d+) clauses", text)
    if mm:
        st["variables"] = max(int(a) for a, _ in mm)
        st["clauses"] = max(int(b) for _, b in mm)
    mm = re.findall(r"Runtime Solver: ([\d.e+-]+)s", text)
    st["solver_s"] = round(sum(float(x) for x in mm), 3)
    st["solver_calls"] = len(mm)
    mm = re.findall(r"Runtime decision procedure: ([\d.e+-]+)s", text)
    if mm:
        st["decision_s"] = round(sum(float(x) for x in mm), 3)
    mm = re.search(r"Solving with (.*)", text)
    if mm:
        st["solver"] = mm.group(1).strip()
    if re.search(r"^error(\[E\d+\])?:", text, re.M) and r["verdict"] is None:
        r["errors"] = re.findall(r"^error.*$", text, re.M)[:10]
    if "unsupported" in text and re.search(r"Status: FAILURE\n\t - Description: \".*not currently supported", text):
        r["unsupported"] = True
    return r


def classify(h, rc, timed_out, text):
    """-> dict(status=pass|fail|inconclusive|broken, ...)"""
    p = parse_log(text)
    res = {"harness": h.name, "status": None, "reason": "", "stats": p["stats"],
           "checks_total": 0, "checks_success": 0, "failed": [], "covers_sat": 0, "covers_total": 0}
    if timed_out:
        res.update(status="inconclusive", reason="wall-clock cap %ds reached" % getattr(h, "effective_timeout", h.timeout))
        return res
    oom = re.search(r"^Out of memory|std::bad_alloc|Cannot allocate memory|memory allocation of \d+ bytes failed|appears to have run out of memory|ran out of memory", text, re.M)
    if oom or re.search(r"CBMC failed with status|^CBMC failed$", text, re.M):
        res.update(status="inconclusive", reason=("memory cap %dGB reached" % h.mem) if oom else "CBMC aborted")
        return res
    if p["verdict"] is None:
        if p["errors"]:
            res.update(status="broken", reason="does not compile: " + " | ".join(p["errors"][:3]))
        else:
            res.update(status="inconclusive", reason="no verdict (rc=%s): %s" % (rc, text[-300:].replace("\n", " / ")))
        return res
    if any(c["status"] == "ERROR" for c in p["checks"]):
        # CBMC reports every check as ERROR when the back end gave up (out of memory, solver failure)
        res.update(status="inconclusive", reason="CBMC could not decide the checks (Status: ERROR)")
        return res
    covers = [c for c in p["checks"] if ".cover." in c["name"] or c["status"] in ("SATISFIED", "UNSATISFIABLE")]
    props = [c for c in p["checks"] if c not in covers]
    res["checks_total"] = len(props)
    res["checks_success"] = sum(1 for c in props if c["status"] == "SUCCESS")
    res["covers_total"] = len(covers)
    res["covers_sat"] = sum(1 for c in covers if c["status"] == "SATISFIED")
    unwind_fail = [c for c in props if c["status"] == "FAILURE" and "unwinding assertion" in c["desc"]]
    unsupported = [c for c in props if c["status"] == "FAILURE" and "not currently supported" in c["desc"]]
    failed = [c for c in props if c["status"] == "FAILURE" and c not in unwind_fail and c not in unsupported]
    undetermined = [c for c in props if c["status"] in ("UNDETERMINED", "UNREACHABLE")]
    res["failed"] = failed
    res["unwind_failed"] = [c["loc"] for c in unwind_fail]
    if failed:
        res.update(status="fail", reason="%d failed checks" % len(failed))
    elif unwind_fail:
        res.update(status="inconclusive", reason="unwinding assertion failed: " + "; ".join(c["loc"] for c in unwind_fail[:3]))
    elif unsupported:
        res.update(status="broken", reason="unsupported construct reachable: " + unsupported[0]["desc"])
    elif p["verdict"] == "SUCCESSFUL":
        bad_cov = [c for c in covers if c["status"] != "SATISFIED"]
        if h.covers == "all" and bad_cov:
            res.update(status="broken", reason="vacuous: cover not satisfied: " + bad_cov[0]["desc"] + " @ " + bad_cov[0]["loc"])
        elif h.covers == "any" and covers and not res["covers_sat"]:
            res.update(status="broken", reason="vacuous: no cover satisfied")
        else:
            res.update(status="pass")
    else:
        # FAILED verdict with no failing property: e.g. unsatisfied cover counts as failure in kani
        bad_cov = [c for c in covers if c["status"] != "SATISFIED"]
        if bad_cov and h.covers != "none" and not (h.covers == "any" and res["covers_sat"]):
            res.update(status="broken", reason="vacuous: cover not satisfied: " + bad_cov[0]["desc"] + " @ " + bad_cov[0]["loc"])
        elif undetermined and not bad_cov:
            res.update(status="inconclusive", reason="undetermined checks")
        elif bad_cov:
            res.update(status="pass")
        else:
            res.update(status="inconclusive", reason="verdict FAILED without a failing check")
    return res


def harness_target(h, tgt):
    """own target dir per harness (hard-linked copy of the warmed-up one): concurrent cargo
    invocations would otherwise serialize on the build-directory lock for the per-harness compile"""
    t = tgt + "-" + h.name
    if not os.path.isdir(t):
        if subprocess.call(["cp", "-al", tgt, t]) != 0:
            shutil.rmtree(t, ignore_errors=True)
            return tgt
    return t


def resolve_unwindset(h, ws, tgt, logdir):
    """per-loop bounds: compile the harness, list its loops with `cbmc --show-loops`, and give every
    loop whose listing matches one of the harness's regexes its bound (first match wins)."""
    lp = os.path.join(logdir, h.name + ".codegen.log")
    rc, to, wall = run_cmd(["cargo", "kani", "-p", h.pkg, "--only-codegen", "--harness", h.fq, "--exact",
                            "--target-dir", tgt] + KANI_BASE[:4], ws, 1800, 24, lp)
    if rc != 0:
        return None
    cands = []
    for root, dirs, files in os.walk(tgt):
        for fn in files:
            if fn.endswith(h.name + ".out") and not fn.endswith(".symtab.out"):
                cands.append(os.path.join(root, fn))
    if not cands:
        return None
    goto = max(cands, key=os.path.getmtime)
    try:
        txt = subprocess.run(["cbmc", "--show-loops", goto], capture_output=True, text=True, timeout=600).stdout
    except Exception:
        return None
    pairs = []
    for m in re.finditer(r"^Loop (\S+):\n\s+(.*)$", txt, re.M):
        lid, desc = m.group(1), m.group(2)
        for rx, n in h.unwindset:
            if re.search(rx, lid + " " + desc):
                pairs.append("%s:%d" % (lid, n))
                break
    for rx, n in h.unwindset:  # library loops (added after codegen) are named literally
        if re.fullmatch(r"[A-Za-z_][\w.]*\.\d+", rx):
            pairs.append("%s:%d" % (rx, n))
    return pairs


DEADLINE = [None]  # absolute time by which a quick-tier run stops starting / cuts harnesses


def _blank(h, status, reason, logpath=""):
    return {"harness": h.name, "status": status, "reason": reason, "stats": {}, "checks_total": 0, "checks_success": 0,
            "failed": [], "covers_sat": 0, "covers_total": 0, "wall_s": 0, "log": logpath}


def run_harness(h, ws, tgt, logdir):
    logpath = os.path.join(logdir, h.name + ".log")
    if DEADLINE[0] is not None and DEADLINE[0] - time.time() < 30:
        return _blank(h, "inconclusive", "quick-tier deadline reached before this harness could start", logpath)
    tgt = harness_target(h, tgt)
    extra = []
    if h.unwindset:
        pairs = resolve_unwindset(h, ws, tgt, logdir)
        if pairs is None:
            return {"harness": h.name, "status": "broken", "reason": "could not list loops for the per-loop unwind bounds",
                    "stats": {}, "checks_total": 0, "checks_success": 0, "failed": [], "covers_sat": 0, "covers_total": 0,
                    "wall_s": 0, "log": logpath}
        if pairs:
            extra = ["--unwindset", ",".join(pairs)]
    if h.cbmc or extra:
        extra = ["--cbmc-args"] + h.cbmc + extra
    h.resolved_extra = extra  # also used when the harness is re-run for concrete playback
    cap = h.timeout
    if DEADLINE[0] is not None:
        cap = max(10, min(cap, int(DEADLINE[0] - time.time())))
    h.effective_timeout = cap
    rc, to, wall = run_cmd(kani_cmd(h, tgt), ws, cap, h.mem, logpath)
    with open(logpath, errors="replace") as f:
        text = f.read()
    res = classify(h, rc, to, text)
    res["wall_s"] = round(wall, 1)
    res["log"] = logpath
    return res


class Scheduler:
    """run harnesses in parallel under a job count and a memory budget."""
    def __init__(self, jobs):
        self.jobs = jobs
        self.cv = threading.Condition()
        self.mem = 0
        self.n = 0

    def run(self, hs, fn):
        results = {}
        hs = sorted(hs, key=lambda h: -h.timeout)

        def work(h):
            with self.cv:
                while self.n >= self.jobs or (self.n > 0 and self.mem + h.mem / 2.0 > MEM_BUDGET_GB):
                    self.cv.wait()
                self.n += 1
                self.mem += h.mem / 2.0
            try:
                t0 = time.time()
                r = fn(h)
                log("  [%s] %-44s %6.1fs %s" % (r["status"].upper()[:5], h.name, time.time() - t0, r["reason"][:150]))
                return r
            finally:
                with self.cv:
                    self.n -= 1
                    self.mem -= h.mem / 2.0
                    self.cv.notify_all()
        with cf.ThreadPoolExecutor(max_workers=max(len(hs), 1)) as ex:
            futs = {ex.submit(work, h): h for h in hs}
            for f in cf.as_completed(futs):
                results[futs[f].name] = f.result()
        return results


# ----------------------------------------------------------------------------
# known findings
# ----------------------------------------------------------------------------
def load_known():
    known, fixed = [], []
    if not os.path.exists(KNOWN):
        return known, fixed
    for ln in open(KNOWN):
        ln = ln.strip()
        m = re.match(r"known:\s*property=(\S+)\s+harness=(\S+)\s+check=/(.*?)/\s*::\s*(.*)$", ln)
        if m:
            known.append({"property": m.group(1), "harness": m.group(2), "check": m.group(3), "what": m.group(4)})
        elif ln.startswith("fixed:"):
            fixed.append(ln)
    return known, fixed


def match_known(known, prop, hname, chk):
    s = "%s @ %s" % (chk["desc"], chk["loc"])
    for k in known:
        if k["property"] == prop and re.fullmatch(k["harness"], hname) and re.search(k["check"], s):
            return k
    return None


# ----------------------------------------------------------------------------
# replay: concrete playback of a failing harness, run natively (dev + release)
# ----------------------------------------------------------------------------
def concrete_playback(h, ws, tgt, logdir, timeout):
    """re-run the failing harness with trace generation; kani adds the unit test in place."""
    logpath = os.path.join(logdir, h.name + ".playback-gen.log")
    cmd = kani_cmd(h, harness_target(h, tgt), ["-Z", "concrete-playback", "--concrete-playback=inplace"])
    rc, to, wall = run_cmd(cmd, ws, timeout, min(48, 2 * h.mem + 8), logpath)  # trace generation needs more memory than the verdict
    src = os.path.join(ws, "verif_h", os.path.basename(h.file))
    text = open(src).read()
    # Kani inserts the unit test right after the harness function; for harnesses generated by a
    # macro_rules! template that is *inside* the macro body (the test would be defined once per
    # invocation and not compile): move every generated test to the end of the module.
    pat = re.compile(r"(?:^[ \t]*///[^\n]*\n)*(?:^[ \t]*\n)*^[ \t]*#\[test\][ \t]*\n[ \t]*fn kani_concrete_playback_\w+\(\) \{.*?\n[ \t]*\}\n", re.S | re.M)
    blocks = pat.findall(text)
    if blocks:
        text = pat.sub("", text)
        text = text.rstrip("\n") + "\n\n" + "\n".join(b.strip("\n") + "\n" for b in blocks)
        open(src, "w").write(text)
    tests = re.findall(r"fn (kani_concrete_playback_%s_\w+)\(" % re.escape(h.name), text)
    return tests, src


def native_playback(h, ws, tests, logdir, release):
    out = []
    for t in tests:
        logpath = os.path.join(logdir, "%s.%s.%s.log" % (h.name, t[-12:], "release" if release else "dev"))
        cmd = ["cargo", "kani", "playback", "-Z", "concrete-playback", "-p", h.pkg]
        if release:
            cmd += ["--release"]
        cmd += ["--", t, "--exact", "--nocapture"] if False else ["--", t]
        rc, to, wall = run_cmd(cmd, ws, 900, 16, logpath, drop=())
        txt = open(logpath, errors="replace").read()
        ran = re.search(r"running 1 test", txt) is not None
        failed = ran and re.search(r"test result: FAILED|panicked at", txt) is not None
        out.append({"test": t, "profile": "release" if release else "dev", "ran": ran, "reproduced": bool(failed),
                    "log": logpath, "to": to})
    return out


def extract_tests(src_text, tests):
    blocks = []
    for t in tests:
        m = re.search(r"(#\[test\]\s*(?:#\[[^\]]*\]\s*)*fn %s\(\) \{.*?\n[ \t]*\}\n)" % re.escape(t), src_text, re.S)
        if m:
            blocks.append(m.group(1))
    return blocks


def save_replay(prop, h, res, tests_src, transcripts, what):
    digest = hashlib.sha256(("%s|%s" % (h.name, json.dumps([c["desc"] + c["loc"] for c in res["failed"]]))).encode()).hexdigest()[:10]
    d = os.path.join(VERIF, "replays", prop, "%s-%s" % (h.name, digest))
    os.makedirs(d, exist_ok=True)
    with open(os.path.join(d, "replay.json"), "w") as f:
        json.dump({"property": prop, "harness": h.name, "harness_file": os.path.relpath(h.file, VERIF),
                   "failed_checks": res["failed"], "what": what, "playback": transcripts}, f, indent=1)
    with open(os.path.join(d, "playback_tests.rs"), "w") as f:
        f.write("\n".join(tests_src))
    for tr in transcripts:
        try:
            shutil.copy(tr["log"], os.path.join(d, os.path.basename(tr["log"])))
        except Exception:
            pass
    try:
        shutil.copy(res["log"], os.path.join(d, "kani.log"))
    except Exception:
        pass
    return d


def do_replay(prop, path, reg):
    meta = json.load(open(os.path.join(path, "replay.json")))
    h = next((x for x in reg if x.name == meta["harness"]), None)
    if h is None:
        log("harness %s no longer exists" % meta["harness"])
        return 2
    run_dir = os.path.join(SCRATCH_ROOT, "replay-%d" % os.getpid())
    shutil.rmtree(run_dir, ignore_errors=True)
    os.makedirs(run_dir)
    try:
        ws = make_workspace(run_dir, [h])
        tests_src = open(os.path.join(path, "playback_tests.rs")).read()
        src = os.path.join(ws, "verif_h", os.path.basename(h.file))
        with open(src, "a") as f:
            f.write("\n" + tests_src)
        tests = re.findall(r"fn (kani_concrete_playback_\w+)\(", tests_src)
        logdir = os.path.join(run_dir, "logs")
        os.makedirs(logdir)
        os.environ["CARGO_TARGET_DIR"] = os.path.join(run_dir, "ptarget")
        ENV["CARGO_TARGET_DIR"] = os.path.join(run_dir, "ptarget")
        rep = native_playback(h, ws, tests, logdir, False) + native_playback(h, ws, tests, logdir, True)
        ok = any(r["reproduced"] for r in rep)
        for r in rep:
            print("replay %s [%s]: %s" % (r["test"], r["profile"], "REPRODUCED" if r["reproduced"] else ("ran, no failure" if r["ran"] else "did not run")))
        if ok:
            print("VIOLATION property=%s replay=%s" % (prop, path))
            return 1
        return 0
    finally:
        shutil.rmtree(run_dir, ignore_errors=True)


def warm_cache(reg):
    """build dependency caches (.cache/target-<crate>) used via hard links by every run."""
    ok = 0
    for crate in ("types", "db"):
        hs = [h for h in reg if h.crate == crate]
        if not hs:
            continue
        h0 = min(hs, key=lambda h: h.timeout)
        run_dir = os.path.join(SCRATCH_ROOT, "warm-%s-%d" % (crate, os.getpid()))
        shutil.rmtree(run_dir, ignore_errors=True)
        os.makedirs(run_dir)
        try:
            ws = make_workspace(run_dir, [h0])
            tgt = os.path.join(CACHE, "target-" + crate)
            shutil.rmtree(tgt, ignore_errors=True)
            os.makedirs(CACHE, exist_ok=True)
            rc, to, wall = run_cmd(["cargo", "kani", "-p", h0.pkg, "--only-codegen", "--harness", h0.fq, "--exact",
                                    "--target-dir", tgt] + KANI_BASE[:4], ws, 3600, 24, os.path.join(run_dir, "warm.log"))
            log("warm cache %s: rc=%s %.0fs" % (crate, rc, wall))
            if rc != 0:
                log(open(os.path.join(run_dir, "warm.log"), errors="replace").read()[-3000:])
                shutil.rmtree(tgt, ignore_errors=True)
                ok = 1
            else:
                # drop the workspace members' own artefacts: they are rebuilt from /repo on every run
                for root, dirs, files in os.walk(tgt):
                    for d in list(dirs):
                        if d.startswith("pocket-types") or d.startswith("pocket-db") or d.startswith("pocket_types") or d.startswith("pocket_db"):
                            shutil.rmtree(os.path.join(root, d), ignore_errors=True)
                            dirs.remove(d)
        finally:
            shutil.rmtree(run_dir, ignore_errors=True)
    try:
        os.rmdir(SCRATCH_ROOT)
    except OSError:
        pass
    return ok


# ----------------------------------------------------------------------------
def main(argv):
    ap = argparse.ArgumentParser()
    ap.add_argument("property", nargs="?")
    ap.add_argument("--tier", default=os.environ.get("VERIF_TIER", "quick"), choices=["quick", "thorough"])
    ap.add_argument("--only", action="append")
    ap.add_argument("--jobs", type=int, default=int(os.environ.get("VERIF_JOBS", "14")))
    ap.add_argument("--keep", action="store_true")
    ap.add_argument("--replay")
    ap.add_argument("--list", action="store_true")
    ap.add_argument("--warm-cache", action="store_true")
    ap.add_argument("--no-evidence", action="store_true")
    ap.add_argument("--timeout-scale", type=float, default=float(os.environ.get("VERIF_TIMEOUT_SCALE", "1")))
    a = ap.parse_args(argv)
    reg = load_registry()
    if a.list:
        for h in reg:
            print("%-4s %-8s %-9s %5ds %-50s %s" % (h.property, h.crate, h.tier, h.timeout, h.name, h.meta.get("bounds", "")[:80]))
        return 0
    if a.warm_cache:
        return warm_cache(reg)
    prop = a.property
    if a.replay:
        return do_replay(prop, a.replay, reg)
    try:
        seed = int(os.environ.get("VERIF_SEED", "0"))
    except ValueError:
        seed = 0
    hs = select(reg, prop, a.tier, seed, a.only)
    if not hs:
        log("no harnesses for %s" % prop)
        return 2
    for h in hs:
        h.timeout = int(h.timeout * a.timeout_scale)
    t_start = time.time()
    if a.tier == "quick" and not a.only:
        # the quick command is meant to run on every change: everything still running when the deadline
        # passes is cut and reported INCONCLUSIVE (never as a pass)
        DEADLINE[0] = t_start + float(os.environ.get("VERIF_QUICK_DEADLINE", "760"))
    run_dir = os.path.join(SCRATCH_ROOT, "run-%s-%d" % (prop, os.getpid()))
    shutil.rmtree(run_dir, ignore_errors=True)
    os.makedirs(run_dir)
    logdir = os.path.join(run_dir, "logs")
    os.makedirs(logdir)
    rcode = 2
    try:
        try:
            ws = make_workspace(run_dir, hs)
        except SystemExit2 as e:
            log("BROKEN: %s" % e)
            return 2
        crate = "db" if any(h.crate == "db" for h in hs) else "types"
        tgt = seed_target(run_dir, crate)
        log("== %s tier=%s seed=%d: %d harnesses, workspace %s" % (prop, a.tier, seed, len(hs), ws))
        # warm-up build: dependencies + compile check of repo and harness modules
        h0 = min(hs, key=lambda h: h.timeout)
        wl = os.path.join(logdir, "_build.log")
        rc, to, wall = run_cmd(["cargo", "kani", "-p", h0.pkg, "--only-codegen", "--harness", h0.fq, "--exact",
                                "--target-dir", tgt] + KANI_BASE[:4], ws, 1800, 24, wl)
        if rc != 0:
            txt = open(wl, errors="replace").read()
            errs = re.findall(r"^error.*(?:\n\s+-->.*)?", txt, re.M)[:8]
            log("BROKEN: /repo + harness modules do not build under Kani (%.0fs):\n%s" % (wall, "\n".join(errs) or txt[-2000:]))
            if a.keep:
                log("kept " + run_dir)
            return 2
        log("   build ok (%.0fs)" % wall)
        sched = Scheduler(a.jobs)
        results = sched.run(hs, lambda h: run_harness(h, ws, tgt, logdir))
        rcode = finish(prop, a, seed, hs, results, ws, tgt, logdir, t_start)
        return rcode
    finally:
        if a.keep or os.environ.get("VERIF_KEEP"):
            log("kept " + run_dir)
        else:
            shutil.rmtree(run_dir, ignore_errors=True)
            try:
                os.rmdir(SCRATCH_ROOT)
            except OSError:
                pass


def finish(prop, a, seed, hs, results, ws, tgt, logdir, t_start):
    known, fixed = load_known()
    by = {h.name: h for h in hs}
    violations, known_hits, broken, inconcl = [], [], [], []
    for name, r in sorted(results.items()):
        h = by[name]
        if r["status"] == "broken":
            broken.append(r)
        elif r["status"] == "inconclusive":
            inconcl.append(r)
        elif r["status"] == "fail":
            unknown = []
            for c in r["failed"]:
                k = match_known(known, prop, name, c)
                if k:
                    if (name, k["what"]) not in [(x[0], x[1]["what"]) for x in known_hits]:
                        known_hits.append((name, k, c))
                else:
                    unknown.append(c)
            r["unknown_failed"] = unknown
            if unknown:
                violations.append(r)
            else:
                r["status"] = "known"
    # replay unknown failures natively before reporting
    vio_lines, nonrepro = [], []
    for r in violations:
        h = by[r["harness"]]
        log("   replaying %s: %s" % (h.name, "; ".join("%s @ %s" % (c["desc"], c["loc"]) for c in r["unknown_failed"][:3])))
        what = "; ".join("%s @ %s" % (c["desc"], c["loc"]) for c in r["unknown_failed"][:5])
        if h.crate == "db":
            # harnesses over the environment model cannot be replayed with Kani's playback (natively the
            # model crates run on real files and the std::fs stubs do not apply): the solver's verdict
            # against the model is reported with its log; DESIGN.md 3.3 says how it is confirmed by hand
            d = save_replay(prop, h, r, [], [], what + " [pocket-db harness over the environment model: not auto-replayed]")
            vio_lines.append("VIOLATION property=%s replay=%s" % (prop, d))
            r["replay_dir"] = d
            continue
        tests, src = concrete_playback(h, ws, tgt, logdir, max(h.timeout * 2, 600))
        transcripts, tests_src = [], []
        if tests:
            ENV["CARGO_TARGET_DIR"] = os.path.join(os.path.dirname(tgt), "ptarget")
            tests_src = extract_tests(open(src).read(), tests)
            transcripts = native_playback(h, ws, tests, logdir, False)
            if not any(t["reproduced"] for t in transcripts):
                transcripts += native_playback(h, ws, tests, logdir, True)
            ENV.pop("CARGO_TARGET_DIR", None)
        r["replay"] = transcripts
        repro = any(t["reproduced"] for t in transcripts)
        only_ub = all(re.search(r"pointer|dereference|out of bounds|offset", c["desc"]) and "index out of bounds" not in c["desc"]
                      for c in r["unknown_failed"])
        if repro or not tests:
            d = save_replay(prop, h, r, tests_src, transcripts, what)
            if not tests:
                log("   (no playback test could be generated; reporting the solver's verdict with its log)")
            vio_lines.append("VIOLATION property=%s replay=%s" % (prop, d))
            r["replay_dir"] = d
        elif only_ub:
            d = save_replay(prop, h, r, tests_src, transcripts, "UB-candidate: " + what)
            print("UB-CANDIDATE property=%s harness=%s %s (does not trap natively; triage by reading) replay=%s" % (prop, h.name, what, d))
            vio_lines.append("VIOLATION property=%s replay=%s" % (prop, d))
            r["replay_dir"] = d
        else:
            nonrepro.append(r)
    for name, k, c in known_hits:
        print("KNOWN-FINDING: property=%s %s [harness %s: %s]" % (prop, k["what"], name, c["desc"]))
    for r in inconcl:
        print("INCONCLUSIVE: property=%s harness=%s %s (not counted as discharged)" % (prop, r["harness"], r["reason"]))
    for r in broken:
        print("BROKEN: property=%s harness=%s %s" % (prop, r["harness"], r["reason"]))
    for r in nonrepro:
        print("NON-REPRODUCING: property=%s harness=%s counterexample did not replay natively: encoding or stub is wrong" % (prop, r["harness"]))
    for l in vio_lines:
        print(l)
    conclusive = [r for r in results.values() if r["status"] in ("pass", "known", "fail")]
    wall = time.time() - t_start
    if not a.no_evidence:
        write_evidence(prop, a.tier, seed, hs, results, known_hits, vio_lines, wall)
    npass = sum(1 for r in results.values() if r["status"] == "pass")
    print("SUMMARY property=%s tier=%s harnesses=%d pass=%d known=%d violations=%d inconclusive=%d broken=%d wall=%.0fs"
          % (prop, a.tier, len(hs), npass, sum(1 for r in results.values() if r["status"] == "known"),
             len(vio_lines), len(inconcl), len(broken) + len(nonrepro), wall))
    if vio_lines:
        return 1
    if broken or nonrepro or not conclusive:
        return 2
    return 0


def write_evidence(prop, tier, seed, hs, results, known_hits, vio_lines, wall):
    by = {h.name: h for h in hs}
    ob = sum(r["checks_total"] for r in results.values())
    dis = sum(r["checks_success"] for r in results.values() if r["status"] in ("pass", "known", "fail"))
    nontrivial = [n for n, r in results.items() if r["status"] in ("pass", "known", "fail") and r["checks_total"] > 0
                  and (by[n].covers == "none" or r["covers_sat"] > 0 or r["covers_total"] == 0)]
    samples = []
    for n, r in sorted(results.items()):
        h = by[n]
        s = {"harness": n, "status": r["status"], "encodes": h.meta.get("encodes", ""), "bounds": h.meta.get("bounds", ""),
             "outside_bounds": h.meta.get("outside", ""), "checks": r["checks_total"], "checks_success": r["checks_success"],
             "covers_satisfied": "%d/%d" % (r["covers_sat"], r["covers_total"]), "wall_s": r.get("wall_s"),
             "solver": r["stats"]}
        if r["status"] in ("inconclusive", "broken"):
            s["reason"] = r["reason"]
        if r.get("failed"):
            s["failed_checks"] = [{"desc": c["desc"], "loc": c["loc"]} for c in r["failed"][:6]]
        samples.append(s)
    assumptions = list(TRUSTED)
    for h in hs:
        for x in h.meta.get("assumes", "").split(";"):
            x = x.strip()
            if x and x not in assumptions:
                assumptions.append(x)
    ev = {
        "property_id": prop, "tier": tier, "seed": seed, "level": "model_checking",
        "coverage": {
            "evaluations": len(results),
            "distinct_nontrivial": len(nontrivial),
            "rule": "one evaluation = one Kani proof harness (symbolic inputs = kani::any(), decided by CBMC/CaDiCaL over the "
                    "compiled code of /repo's working tree); non-trivial = the solver reached a verdict on every check of the "
                    "harness and its reachability witnesses (kani::cover!) were satisfied; harness names are distinct by construction",
            "samples": samples,
            "obligations": ob, "discharged": dis,
            "inconclusive": [{"harness": n, "reason": r["reason"]} for n, r in results.items() if r["status"] == "inconclusive"],
            "known_findings_hit": [{"harness": n, "what": k["what"]} for n, k, c in known_hits],
            "functions_encoded": sorted({f.strip() for h in hs for f in h.meta.get("encodes", "").split(",") if f.strip()}),
            "solver_seconds": round(sum(r["stats"].get("solver_s", 0) for r in results.values()), 1),
            "symex_steps": sum(r["stats"].get("steps", 0) for r in results.values()),
            "checker_cmd": "cargo kani -p <crate> --harness <h> --exact -Z stubbing -Z unstable-options --no-assertion-reach-checks",
            "trusted_base": TRUSTED,
            "exhaustive": False,
        },
        "assumptions": assumptions,
        "wall_s": round(wall, 1),
        "violations": len(vio_lines),
    }
    os.makedirs(os.path.join(VERIF, "evidence"), exist_ok=True)
    with open(os.path.join(VERIF, "evidence", prop + ".json"), "w") as f:
        json.dump(ev, f, indent=1)


if __name__ == "__main__":
    sys.exit(main(sys.argv[1:]))
