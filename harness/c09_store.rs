//@@ property: C09
//@@ crate: db
//@@ mount: pocket-db/src/lib.rs
//@@ also: db_lmdb_helper.rs@pocket-db/src/lmdb/mod.rs, es_helper.rs@pocket-db/src/event_store.rs
use crate::*;
include!("common_db.rs");
include!("img.rs");
include!("store_common.rs");

//@ harness: c09_store_replaceable_two
//@ tier: thorough
//@ timeout: 3000
//@ mem: 20
//@ covers: any
//@ unwindset: put_bytes=80; heed::bytes_=260; heed::Table=6; memcmp.0=70; repeat::Repeat=190; Repeat.*try_fold=190; mmap_append=200; read_hex=34; enc_tags=6
//@ cbmc: --max-field-sensitivity-array-size 1100
//@ encodes: Store::store_event, Store::remove_replaceable, Store::find_replaceable_event_inner, Lmdb::akc_iter, Lmdb::index, Lmdb::deindex
//@ bounds: fresh store; a replaceable event (kind 10003, created_at 4224 = 0x1080) is in the store (seeded through EventStore::store_event + Lmdb::index, the two halves of a store), then a second event at the same address (same author and kind) with an ARBITRARY created_at t: t > 0x1080 -> stored, the holder is no longer retrievable, exactly one event at the address; t < 4224 -> refused as replaced, the holder is still retrievable, nothing else changed; (t == 4224 is left open by the property)
//@ outside: parameterized addresses, neighbouring addresses, longer histories
store_harness!(c09_store_replaceable_two, {
    let store = verif_store();
    let mut b1 = [0u8; 160];
    let n1 = enc_event_img(10003, 0x1080, &ID_A, &PK_1, &SIG_0, &[], b"", b"", &mut b1);
    let _ = seed_stored(&store, as_event(&b1[..n1]));
    assert!(has(&store, &ID_A));
    let lo: u8 = kani::any();
    let t: u64 = 0x1000 + lo as u64;
    kani::assume(t != 0x1080);
    let mut b2 = [0u8; 160];
    let n2 = enc_event_img(10003, t, &ID_B, &PK_1, &SIG_0, &[], b"", b"", &mut b2);
    let o = outcome(store.store_event(as_event(&b2[..n2])));
    kani::cover!(t > 0x1080);
    if t > 0x1080 {
        assert!(o == Outcome::Stored);
        assert!(!has(&store, &ID_A) && has(&store, &ID_B));
    } else {
        assert!(o == Outcome::Replaced);
        assert!(has(&store, &ID_A) && !has(&store, &ID_B));
    }
    // at most one event at the address, and it is the newer one
    let cur = ok!(store.find_replaceable_event(Pubkey::from_bytes(PK_1), Kind::from_u16(10003)));
    let cur = some!(cur);
    assert!(cur.created_at().as_u64() == if t > 0x1080 { t } else { 0x1080 });
    core::mem::forget(store);
});
