//! Environment MODEL of `mmap-append` 0.2.0 (see /verif/DESIGN.md 2.3).
//!
//! The append/get_end/deref/resize logic follows the real crate line by line (header =
//! 8-byte little-endian end marker; `append` runs the writer on `[end, end+max_len)`,
//! then a fence, then stores the new marker; "Out of space" when `end + max_len` exceeds
//! the mapping).  The mapping itself is a byte buffer:
//!   * under Kani: a static model file (`verif::FILE`) that the `std::fs` stubs of the
//!     harness prelude also act on; `resize` moves the contents to a *fresh* buffer, which is
//!     the documented contract of `mremap(MREMAP_MAYMOVE)` that the real crate requests;
//!   * natively (model validation only): a heap buffer written through to the real file.
//! Persistent effects are numbered (`verif::STEP`); effects whose number is >= `verif::CRASH_AT`
//! are not applied, which is what a process kill at that instant leaves in the file under
//! the assumption that writes reach the file in program order.
#![allow(clippy::all, dead_code, unused_variables)]

use std::fmt;
use std::io::{self, Result};
use std::ops::Deref;
use std::os::unix::io::{AsRawFd, RawFd};

pub const HEADER_SIZE: usize = std::mem::size_of::<usize>();

pub mod verif {
    //! Verification-side state (not part of mmap-append's API).
    #[cfg(kani)]
    pub const FCAP: usize = 4608;
    #[cfg(not(kani))]
    pub const FCAP: usize = 0;
    pub const NBUF: usize = 2;

    pub struct ModelFile {
        /// what is on "disk"
        pub exists: bool,
        pub len: usize,
        pub data: [u8; FCAP],
    }
    #[cfg(kani)]
    pub static mut FILE: ModelFile = ModelFile { exists: false, len: 0, data: [0; FCAP] };
    /// mapping buffers (the process's view); `CUR` changes when a resize moves the mapping
    #[cfg(kani)]
    pub static mut MAPS: [[u8; FCAP]; NBUF] = [[0; FCAP]; NBUF];
    pub static mut CUR: usize = 0;
    pub static mut MAP_LEN: usize = 0;
    /// crash injection: persistent effects numbered from 0; those >= CRASH_AT are dropped
    pub static mut STEP: u32 = 0;
    pub static mut CRASH_AT: u32 = u32::MAX;
    /// when true `resize` keeps the address (models a non-moving growth strategy)
    pub static mut RESIZE_IN_PLACE: bool = false;

    pub fn effect_allowed() -> bool {
        unsafe {
            let ok = STEP < CRASH_AT;
            STEP += 1;
            ok
        }
    }
    #[cfg(kani)]
    pub fn file() -> &'static mut ModelFile {
        unsafe { &mut *core::ptr::addr_of_mut!(FILE) }
    }
    #[cfg(kani)]
    pub fn map() -> &'static mut [u8; FCAP] {
        unsafe { &mut (*core::ptr::addr_of_mut!(MAPS))[CUR] }
    }
    /// model of File::set_len on the model file.  Invariant kept by the whole model: bytes of
    /// `data` at or beyond `len` are zero, so growing (ftruncate zero-fills) needs no loop.
    #[cfg(kani)]
    pub fn file_set_len(n: usize) -> bool {
        if n > FCAP {
            return false;
        }
        let f = file();
        if n < f.len {
            panic!("mmap-append model limit: shrinking the file is not modelled");
        }
        if effect_allowed() {
            f.len = n;
            f.exists = true;
        }
        true
    }
}

#[cfg(kani)]
pub struct MmapAppend {
    fd: RawFd,
}

#[cfg(not(kani))]
pub struct MmapAppend {
    fd: RawFd,
    append_lock: std::sync::Mutex<()>,
    // old buffers are kept alive (leaked into `old`) so that a stale reference taken before a
    // resize dangles only logically, as with a real moved mapping, without native UB in tests
    inner: std::sync::RwLock<(Vec<u8>, Vec<Vec<u8>>)>,
}

impl MmapAppend {
    /// # Safety
    /// as the real crate
    pub unsafe fn new<T: MmapAsRawDesc>(file: T, initialize: bool) -> Result<MmapAppend> {
        let fd = file.as_raw_desc().0;
        #[cfg(kani)]
        {
            let f = verif::file();
            let len = f.len;
            if len < HEADER_SIZE {
                return Err(io::Error::from(io::ErrorKind::Other));
            }
            // map: the process sees the file contents
            verif::MAP_LEN = len;
            let m = verif::map();
            *m = f.data; // bytes beyond `len` are zero in both (model invariant)
            if initialize {
                let hdr = HEADER_SIZE.to_le_bytes();
                m[0..HEADER_SIZE].copy_from_slice(&hdr);
                if verif::effect_allowed() {
                    f.data[0..HEADER_SIZE].copy_from_slice(&hdr);
                }
            }
            Ok(MmapAppend { fd })
        }
        #[cfg(not(kani))]
        {
            use std::os::unix::fs::FileExt;
            let fileh = std::mem::ManuallyDrop::new(<std::fs::File as std::os::unix::io::FromRawFd>::from_raw_fd(fd));
            let len = fileh.metadata()?.len() as usize;
            if len < HEADER_SIZE {
                return Err(io::Error::new(io::ErrorKind::Other, "File not large enough."));
            }
            let mut buf = vec![0u8; len];
            fileh.read_exact_at(&mut buf, 0)?;
            if initialize {
                buf[0..HEADER_SIZE].copy_from_slice(&HEADER_SIZE.to_le_bytes());
                fileh.write_all_at(&buf[0..HEADER_SIZE], 0)?;
            }
            Ok(MmapAppend { fd, append_lock: std::sync::Mutex::new(()), inner: std::sync::RwLock::new((buf, Vec::new())) })
        }
    }

    pub fn append<F>(&self, max_len: usize, writer: F) -> Result<usize>
    where
        F: FnOnce(&mut [u8]) -> Result<usize>,
    {
        #[cfg(kani)]
        unsafe {
            let m = verif::map();
            let maplen = verif::MAP_LEN;
            let mut e8 = [0u8; HEADER_SIZE];
            e8.copy_from_slice(&m[0..HEADER_SIZE]);
            let end = usize::from_le_bytes(e8);
            if end + max_len > maplen {
                // payload-free error: the text comes from the Display stub of the harness prelude
                return Err(io::Error::from(io::ErrorKind::Other));
            }
            let len = writer(&mut m[end..end + max_len])?;
            // the payload reaches the file in two halves (a kill can land mid-copy)
            let f = verif::file();
            let half = len / 2;
            if verif::effect_allowed() {
                let mut i = 0;
                while i < half {
                    f.data[end + i] = m[end + i];
                    i += 1;
                }
            }
            if verif::effect_allowed() {
                let mut i = half;
                while i < len {
                    f.data[end + i] = m[end + i];
                    i += 1;
                }
            }
            // fence, then the marker
            let newend = end + len;
            let ne = newend.to_le_bytes();
            m[0..HEADER_SIZE].copy_from_slice(&ne);
            if verif::effect_allowed() {
                f.data[0..HEADER_SIZE].copy_from_slice(&ne);
            }
            Ok(end)
        }
        #[cfg(not(kani))]
        {
            use std::os::unix::fs::FileExt;
            let _guard = self.append_lock.lock().unwrap();
            let mut inner = self.inner.write().unwrap();
            let slice = &mut inner.0;
            let end = usize::from_le_bytes(slice[0..HEADER_SIZE].try_into().unwrap());
            if end + max_len > slice.len() {
                return Err(io::Error::new(io::ErrorKind::Other, "Out of space"));
            }
            let len = writer(&mut slice[end..end + max_len])?;
            std::sync::atomic::fence(std::sync::atomic::Ordering::SeqCst);
            let newend = end + len;
            slice[0..HEADER_SIZE].copy_from_slice(&newend.to_le_bytes());
            let fileh = std::mem::ManuallyDrop::new(unsafe { <std::fs::File as std::os::unix::io::FromRawFd>::from_raw_fd(self.fd) });
            fileh.write_all_at(&slice[end..end + len], end as u64)?;
            fileh.write_all_at(&slice[0..HEADER_SIZE], 0)?;
            Ok(end)
        }
    }

    pub fn resize(&self, new_len: usize) -> Result<()> {
        #[cfg(kani)]
        unsafe {
            if new_len > verif::FCAP {
                panic!("mmap-append model limit: mapping larger than the modelled file capacity");
            }
            // the mapping now covers the (already enlarged) file; MAYMOVE: contents move to a fresh buffer
            let f = verif::file();
            let old = verif::CUR;
            if !verif::RESIZE_IN_PLACE {
                if old + 1 >= verif::NBUF {
                    panic!("mmap-append model limit: more resizes than modelled buffers");
                }
                verif::CUR = old + 1;
                let src = (*core::ptr::addr_of!(verif::MAPS))[old];
                let dst = verif::map();
                *dst = src; // bytes beyond the old mapping length are zero, as in the enlarged file
            }
            verif::MAP_LEN = new_len;
            Ok(())
        }
        #[cfg(not(kani))]
        {
            let _guard = self.append_lock.lock().unwrap();
            let mut inner = self.inner.write().unwrap();
            let mut fresh = vec![0u8; new_len];
            let n = inner.0.len().min(new_len);
            fresh[..n].copy_from_slice(&inner.0[..n]);
            let old = std::mem::replace(&mut inner.0, fresh);
            inner.1.push(old);
            Ok(())
        }
    }

    pub fn get_end(&self) -> usize {
        #[cfg(kani)]
        {
            let m = verif::map();
            let mut e8 = [0u8; HEADER_SIZE];
            e8.copy_from_slice(&m[0..HEADER_SIZE]);
            usize::from_le_bytes(e8)
        }
        #[cfg(not(kani))]
        {
            let inner = self.inner.read().unwrap();
            usize::from_le_bytes(inner.0[0..HEADER_SIZE].try_into().unwrap())
        }
    }

    pub fn flush(&self) -> Result<()> {
        Ok(())
    }
    pub fn flush_async(&self) -> Result<()> {
        Ok(())
    }
    pub fn flush_range(&self, _offset: usize, _len: usize) -> Result<()> {
        Ok(())
    }
}

impl Deref for MmapAppend {
    type Target = [u8];
    #[inline]
    fn deref(&self) -> &[u8] {
        #[cfg(kani)]
        {
            let end = self.get_end();
            let m: &'static [u8; verif::FCAP] = verif::map();
            &m[..end]
        }
        #[cfg(not(kani))]
        {
            let inner = self.inner.read().unwrap();
            let end = usize::from_le_bytes(inner.0[0..HEADER_SIZE].try_into().unwrap());
            unsafe { std::slice::from_raw_parts(inner.0.as_ptr(), end) }
        }
    }
}

impl AsRef<[u8]> for MmapAppend {
    #[inline]
    fn as_ref(&self) -> &[u8] {
        self.deref()
    }
}

impl fmt::Debug for MmapAppend {
    fn fmt(&self, fmt: &mut fmt::Formatter) -> fmt::Result {
        fmt.write_str("MmapAppend(model)")
    }
}

pub struct MmapRawDescriptor(RawFd);

pub trait MmapAsRawDesc {
    fn as_raw_desc(&self) -> MmapRawDescriptor;
}

impl MmapAsRawDesc for RawFd {
    fn as_raw_desc(&self) -> MmapRawDescriptor {
        MmapRawDescriptor(*self)
    }
}

impl<'a, T> MmapAsRawDesc for &'a T
where
    T: AsRawFd,
{
    fn as_raw_desc(&self) -> MmapRawDescriptor {
        MmapRawDescriptor(self.as_raw_fd())
    }
}
