//@@ property: C16
//@@ crate: db
//@@ mount: pocket-db/src/lmdb/mod.rs
//@@ also: db_lmdb_helper.rs@pocket-db/src/lmdb/mod.rs
// Reopen at the Lmdb level: the REAL constructor `Lmdb::new` run on an environment that already
// holds committed data (what `Store::new` does on an existing directory).  It must open the
// tables, not clear or re-create them.  (The event file's reopen is decided under C04/C13;
// `Store::rebuild` is outside every claim.)
use super::*;
include!("common_db.rs");

fn lmdb() -> Lmdb {
    super::verif_db_lmdb_helper::verif_lmdb()
}

fn reopen() -> Lmdb {
    match Lmdb::new("/s/lmdb", &[]) {
        Ok(l) => l,
        Err(e) => {
            core::mem::forget(e);
            panic!("reopening an existing environment failed")
        }
    }
}

macro_rules! lm_harness {
    ($name:ident, $body:expr) => {
        #[kani::proof]
        #[kani::unwind(14)]
        #[kani::stub(core::panic::Location::caller, stub_caller)]
        #[kani::stub(std::hash::RandomState::new, stub_random_state)]
        fn $name() {
            $body
        }
    };
}

//@ harness: c16_lmdb_reopen_keeps_markers c16_lmdb_reopen_keeps_index_entries
//@ tier: thorough
//@ timeout: 3000
//@ mem: 24
//@ covers: any
//@ unwindset: heed::bytes_=260; heed::Table=6; memcmp.0=80; repeat::Repeat=190; Repeat.*try_fold=190
//@ cbmc: --max-field-sensitivity-array-size 300
//@ encodes: Lmdb::new (on an existing environment), Lmdb::mark_deleted, Lmdb::mark_naddr_deleted, Lmdb::is_deleted, Lmdb::when_is_naddr_deleted, Lmdb::get_offset_by_id, Lmdb::stats-level table lengths
//@ bounds: an environment holding, committed, _markers: a deletion marker on an id with arbitrary first/last byte and an address deletion of (30023, A, "x") at an ARBITRARY 64-bit time; _index_entries: an id-index entry and a time-index entry with an ARBITRARY 64-bit offset value. The handle is dropped and the REAL Lmdb::new is run on the same environment: afterwards the marker / time / offsets read back exactly and every table has the same number of entries - reopening neither clears nor re-creates tables
//@ outside: Store::rebuild; the directory/file handling of Store::new; LMDB's own persistence (assumed: the model's committed state is what a reopen sees)
//@ assumes: heed model: committed state survives dropping the environment handle; `create` opens an existing table
lm_harness!(c16_lmdb_reopen_keeps_markers, {
    let l = lmdb();
    let mut id = [0xA1u8; 32];
    id[0] = kani::any();
    id[31] = kani::any();
    let when: u64 = kani::any();
    let addr = Addr { kind: Kind::from_u16(30023), author: Pubkey::from_bytes([0x11u8; 32]), d: vec![b'x'] };
    {
        let mut txn = ok!(l.write_txn());
        ok!(l.mark_deleted(&mut txn, Id::from_bytes(id)));
        ok!(l.mark_naddr_deleted(&mut txn, &addr, Time::from_u64(when)));
        ok!(txn.commit());
    }
    core::mem::forget(l);
    let l2 = reopen();
    let txn = ok!(l2.read_txn());
    kani::cover!(when == 0);
    assert!(ok!(l2.is_deleted(&txn, Id::from_bytes(id))), "an id deletion marker did not survive reopening");
    assert!(ok!(l2.when_is_naddr_deleted(&txn, &addr)) == Some(Time::from_u64(when)), "an address deletion did not survive reopening");
    assert!(ok!(l2.deleted_ids.len(&txn)) == 1 && ok!(l2.deleted_naddrs.len(&txn)) == 1);
    assert!(ok!(l2.i_index.len(&txn)) == 0);
    core::mem::forget(txn);
    core::mem::forget(addr);
    core::mem::forget(l2);
});
lm_harness!(c16_lmdb_reopen_keeps_index_entries, {
    let l = lmdb();
    let id = [0xB2u8; 32];
    let off: u64 = kani::any();
    let t: u64 = kani::any();
    {
        let mut txn = ok!(l.write_txn());
        ok!(l.i_index.put(&mut txn, &id[..], &off));
        let key = Lmdb::key_ci_index(Time::from_u64(t), Id::from_bytes(id));
        ok!(l.ci_index.put(&mut txn, &key, &off));
        ok!(txn.commit());
        core::mem::forget(key);
    }
    core::mem::forget(l);
    let l2 = reopen();
    let txn = ok!(l2.read_txn());
    kani::cover!(off == 8);
    assert!(ok!(l2.get_offset_by_id(&txn, Id::from_bytes(id))) == Some(off), "an id-index entry did not survive reopening");
    assert!(ok!(l2.i_index.len(&txn)) == 1 && ok!(l2.ci_index.len(&txn)) == 1);
    assert!(ok!(l2.deleted_ids.len(&txn)) == 0);
    core::mem::forget(txn);
    core::mem::forget(l2);
});
