//@@ property: C06
//@@ crate: types
//@@ mount: pocket-types/src/lib.rs
// Filter::event_matches against a reference predicate.  Operands are laid out
// directly as byte images (shape concrete per harness, contents symbolic) by a
// small encoder written from the layout comments in filter.rs/event.rs/tags.rs,
// and viewed through the crate's own `delineate`.  The reference predicate works
// on the parts the images were encoded from.
use crate::{Event, Filter};
include!("common.rs");

include!("img.rs");

fn eq(a: &[u8], b: &[u8]) -> bool {
    if a.len() != b.len() {
        return false;
    }
    let mut i = 0;
    while i < a.len() {
        if a[i] != b[i] {
            return false;
        }
        i += 1;
    }
    true
}

/// NIP-01: every constraint has an event tag with that name whose first value is listed.
fn spec_tags(fs: &[&[usize]], fp: &[u8], es: &[&[usize]], ep: &[u8]) -> bool {
    let mut c = 0;
    while c < fs.len() {
        let name = str_at(fs, fp, c, 0);
        let mut found = false;
        let mut j = 1;
        while j < fs[c].len() {
            let val = str_at(fs, fp, c, j);
            let mut t = 0;
            while t < es.len() {
                if es[t].len() >= 2 && eq(str_at(es, ep, t, 0), name) && eq(str_at(es, ep, t, 1), val) {
                    found = true;
                }
                t += 1;
            }
            j += 1;
        }
        if !found {
            return false;
        }
        c += 1;
    }
    true
}

struct Parts {
    ids: [[u8; 32]; 2],
    n_ids: usize,
    authors: [[u8; 32]; 2],
    n_authors: usize,
    kinds: [u16; 2],
    n_kinds: usize,
    since: u64,
    until: u64,
    limit: u32,
    ev_id: [u8; 32],
    ev_pk: [u8; 32],
    ev_kind: u16,
    ev_time: u64,
}

fn enc_filter(p: &Parts, fs: &[&[usize]], fp: &[u8], out: &mut [u8]) -> usize {
    put16(out, 4, p.n_ids);
    put16(out, 6, p.n_authors);
    put16(out, 8, p.n_kinds);
    out[10] = 0;
    out[11] = 0;
    out[12..16].copy_from_slice(&p.limit.to_ne_bytes());
    out[16..24].copy_from_slice(&p.since.to_ne_bytes());
    out[24..32].copy_from_slice(&p.until.to_ne_bytes());
    let mut q = 32;
    let mut i = 0;
    while i < p.n_ids {
        out[q..q + 32].copy_from_slice(&p.ids[i]);
        q += 32;
        i += 1;
    }
    i = 0;
    while i < p.n_authors {
        out[q..q + 32].copy_from_slice(&p.authors[i]);
        q += 32;
        i += 1;
    }
    i = 0;
    while i < p.n_kinds {
        out[q..q + 2].copy_from_slice(&p.kinds[i].to_ne_bytes());
        q += 2;
        i += 1;
    }
    let tl = enc_tags(fs, fp, &mut out[q..]);
    q += tl;
    put32(out, 0, q);
    q
}

fn enc_event(p: &Parts, es: &[&[usize]], ep: &[u8], out: &mut [u8]) -> usize {
    out[4..6].copy_from_slice(&p.ev_kind.to_ne_bytes());
    out[6] = 0;
    out[7] = 0;
    out[8..16].copy_from_slice(&p.ev_time.to_ne_bytes());
    out[16..48].copy_from_slice(&p.ev_id);
    out[48..80].copy_from_slice(&p.ev_pk);
    // sig: left zero
    let tl = enc_tags(es, ep, &mut out[144..]);
    put32(out, 144 + tl, 0);
    let len = 144 + tl + 4;
    put32(out, 0, len);
    len
}

fn spec_header(p: &Parts) -> bool {
    let mut ok = true;
    if p.n_ids > 0 {
        let mut any = false;
        let mut i = 0;
        while i < p.n_ids {
            if p.ids[i] == p.ev_id {
                any = true;
            }
            i += 1;
        }
        ok = ok && any;
    }
    if p.n_authors > 0 {
        let mut any = false;
        let mut i = 0;
        while i < p.n_authors {
            if p.authors[i] == p.ev_pk {
                any = true;
            }
            i += 1;
        }
        ok = ok && any;
    }
    if p.n_kinds > 0 {
        let mut any = false;
        let mut i = 0;
        while i < p.n_kinds {
            if p.kinds[i] == p.ev_kind {
                any = true;
            }
            i += 1;
        }
        ok = ok && any;
    }
    ok && p.since <= p.ev_time && p.ev_time <= p.until
}

fn any_parts(n_ids: usize, n_authors: usize, n_kinds: usize) -> Parts {
    Parts {
        ids: kani::any(),
        n_ids,
        authors: kani::any(),
        n_authors,
        kinds: kani::any(),
        n_kinds,
        since: kani::any(),
        until: kani::any(),
        limit: kani::any(),
        ev_id: kani::any(),
        ev_pk: kani::any(),
        ev_kind: kani::any(),
        ev_time: kani::any(),
    }
}

fn run(p: &Parts, fs: &[&[usize]], fp: &[u8], es: &[&[usize]], ep: &[u8]) {
    let mut fbuf = [0u8; 32 + 64 + 64 + 4 + 48];
    let mut ebuf = [0u8; 144 + 48 + 4];
    let fl = enc_filter(p, fs, fp, &mut fbuf);
    let el = enc_event(p, es, ep, &mut ebuf);
    // views made with the same pointer cast as `from_inner` (keeps lengths constant for the
    // symbolic executor; `delineate` returns them inside a niche-encoded Result)
    let fs_: &[u8] = &fbuf[..fl];
    let es_: &[u8] = &ebuf[..el];
    let filter: &Filter = unsafe { &*(fs_ as *const [u8] as *const Filter) };
    let event: &Event = unsafe { &*(es_ as *const [u8] as *const Event) };
    assert!(filter.len() == fl && event.len() == el);
    let spec = spec_header(p) && spec_tags(fs, fp, es, ep);
    let got = filter.event_matches(event);
    kani::cover!(spec);
    kani::cover!(!spec);
    match got {
        Ok(m) => assert!(m == spec),
        Err(e) => {
            core::mem::forget(e);
            assert!(false, "event_matches returned Err on well-formed operands");
        }
    }
}

//@ harness: c06_header_000 c06_header_111 c06_header_222
//@ tier: quick
//@ timeout: 1200
//@ mem: 12
//@ unwindset: memcmp.0=34; put_bytes=8
//@ cbmc: --max-field-sensitivity-array-size 256
//@ encodes: Filter::event_matches, Filter::{ids,authors,kinds,since,until,tags}, Event::{id,pubkey,kind,created_at,tags}, Tags::is_empty
//@ bounds: ids/authors/kinds counts (0,0,0), (1,1,1), (2,2,2) - the instance -, every id/pubkey/kind/since/until/created_at value arbitrary (boundary times included), no tag constraints, event without tags
//@ outside: more than two entries per list; the mixed count shapes are thorough instances
#[kani::proof]
#[kani::unwind(5)]
#[kani::stub(core::panic::Location::caller, stub_caller)]
fn c06_header_000() {
    let p = any_parts(0, 0, 0);
    run(&p, &[], &[], &[], &[]);
}
#[kani::proof]
#[kani::unwind(5)]
#[kani::stub(core::panic::Location::caller, stub_caller)]
fn c06_header_111() {
    let p = any_parts(1, 1, 1);
    run(&p, &[], &[], &[], &[]);
}
#[kani::proof]
#[kani::unwind(5)]
#[kani::stub(core::panic::Location::caller, stub_caller)]
fn c06_header_222() {
    let p = any_parts(2, 2, 2);
    run(&p, &[], &[], &[], &[]);
}

//@ harness: c06_header_201 c06_header_022 c06_header_120
//@ tier: thorough
//@ timeout: 1200
//@ mem: 12
//@ unwindset: memcmp.0=34; put_bytes=8
//@ cbmc: --max-field-sensitivity-array-size 256
//@ encodes: Filter::event_matches, Filter::{ids,authors,kinds}
//@ bounds: mixed count shapes (2,0,1), (0,2,2), (1,2,0): the offsets of the author and kind arrays depend on the earlier counts
#[kani::proof]
#[kani::unwind(5)]
#[kani::stub(core::panic::Location::caller, stub_caller)]
fn c06_header_201() {
    let p = any_parts(2, 0, 1);
    run(&p, &[], &[], &[], &[]);
}
#[kani::proof]
#[kani::unwind(5)]
#[kani::stub(core::panic::Location::caller, stub_caller)]
fn c06_header_022() {
    let p = any_parts(0, 2, 2);
    run(&p, &[], &[], &[], &[]);
}
#[kani::proof]
#[kani::unwind(5)]
#[kani::stub(core::panic::Location::caller, stub_caller)]
fn c06_header_120() {
    let p = any_parts(1, 2, 0);
    run(&p, &[], &[], &[], &[]);
}

//@ harness: c06_tags_prefix_values
//@ tier: quick
//@ timeout: 1800
//@ mem: 12
//@ unwindset: memcmp.0=34; put_bytes=8
//@ cbmc: --max-field-sensitivity-array-size 256
//@ encodes: Filter::event_matches, Tags::get_string, Tags::matches, TagsIter, TagsStringIter
//@ bounds: filter constraint [n(1) v(1) v(2)], event tags [[n(1) v(1) x(1)], [n(1) v(2)]] - all string bytes arbitrary (values that are prefixes/extensions of each other, repeated names); header arbitrary with one kind
#[kani::proof]
#[kani::unwind(5)]
#[kani::stub(core::panic::Location::caller, stub_caller)]
fn c06_tags_prefix_values() {
    let p = any_parts(0, 0, 1);
    let fp: [u8; 4] = kani::any();
    let ep: [u8; 6] = kani::any();
    run(&p, &[&[1, 1, 2]], &fp, &[&[1, 1, 1], &[1, 2]], &ep);
}

//@ harness: c06_tags_empty_and_multiletter
//@ tier: quick
//@ timeout: 1800
//@ mem: 12
//@ unwindset: memcmp.0=34; put_bytes=8
//@ cbmc: --max-field-sensitivity-array-size 256
//@ encodes: Filter::event_matches, Tags::get_string, Tags::matches, TagsIter, TagsStringIter
//@ bounds: filter constraints [[n(1) v(0)], [n(2) v(1)]], event tags [[n(2) v(1)], [n(1)], [], [n(1) v(0) x(1)]] - empty values, multi-letter names, a name-only tag and an empty tag; bytes arbitrary
#[kani::proof]
#[kani::unwind(5)]
#[kani::stub(core::panic::Location::caller, stub_caller)]
fn c06_tags_empty_and_multiletter() {
    let p = any_parts(0, 0, 0);
    let fp: [u8; 4] = kani::any();
    let ep: [u8; 6] = kani::any();
    run(&p, &[&[1, 0], &[2, 1]], &fp, &[&[2, 1], &[1], &[], &[1, 0, 1]], &ep);
}

//@ harness: c06_tags_repeated_names
//@ tier: quick
//@ timeout: 1800
//@ mem: 12
//@ unwindset: memcmp.0=34; put_bytes=8
//@ cbmc: --max-field-sensitivity-array-size 256
//@ encodes: Filter::event_matches, Tags::get_string, Tags::matches
//@ bounds: two filter constraints with 1-byte names (possibly equal) and one 1-byte value each; event tags [[n v],[n v],[n v(0)]]; one author in the filter; bytes arbitrary
#[kani::proof]
#[kani::unwind(5)]
#[kani::stub(core::panic::Location::caller, stub_caller)]
fn c06_tags_repeated_names() {
    let p = any_parts(0, 1, 0);
    let fp: [u8; 4] = kani::any();
    let ep: [u8; 5] = kani::any();
    run(&p, &[&[1, 1], &[1, 1]], &fp, &[&[1, 1], &[1, 1], &[1, 0]], &ep);
}

//@ harness: c06_tags_event_without_tags
//@ covers: any
//@ tier: quick
//@ timeout: 900
//@ unwindset: memcmp.0=34; put_bytes=8
//@ cbmc: --max-field-sensitivity-array-size 256
//@ encodes: Filter::event_matches (empty-event-tags shortcut)
//@ bounds: one constraint [n(1) v(1)] (and one with no value at all), event with zero tags; header arbitrary
#[kani::proof]
#[kani::unwind(5)]
#[kani::stub(core::panic::Location::caller, stub_caller)]
fn c06_tags_event_without_tags() {
    let p = any_parts(1, 0, 0);
    let fp: [u8; 3] = kani::any();
    run(&p, &[&[1, 1], &[1]], &fp, &[], &[]);
}
