//@@ property: C02
//@@ crate: types
//@@ mount: pocket-types/src/lib.rs
use crate::{Event, Id, Kind, Pubkey, Sig, Tags, Time};
include!("common.rs");
include!("texts.rs");
include!("jsonsym.rs");
include!("img.rs");

/// Parse `text` into a buffer with ARBITRARY prior contents and compare the resulting image,
/// byte by byte, with the reference encoder's image of the parts the text denotes.  One parse
/// per harness: equality with one fixed image for every prior buffer content is what makes the
/// binary form canonical across buffers, layouts, spellings and `from_parts` (C19 decides that
/// `Event::from_parts` writes exactly the reference encoder's image).
fn image_is_canonical(text: &[u8], content: &[u8]) {
    let pool = [b'e', b'a', b'b', b'p'];
    let shape: [&[usize]; 3] = [&[1, 2], &[1], &[]];
    let mut reference = [0u8; 200];
    let n = enc_event_img(30023, 1681778790, &ID_BIN, &PK_BIN, &SIG_BIN, &shape, &pool, content, &mut reference);
    let mut out: [u8; 200] = kani::any();
    match Event::from_json(text, &mut out) {
        Ok((_, ev)) => {
            assert!(ev.len() == n);
            let k: usize = kani::any();
            kani::assume(k < n);
            kani::cover!(k == 7);
            assert!(ev.as_bytes()[k] == reference[k]);
        }
        Err(e) => {
            core::mem::forget(e);
            panic!("valid text rejected")
        }
    }
}

macro_rules! canonical {
    ($name:ident, $T:ident, $content:expr) => {
        #[kani::proof]
        #[kani::unwind(8)]
        #[kani::stub(core::panic::Location::caller, stub_caller)]
        fn $name() {
            image_is_canonical($T, $content);
        }
    };
}

//@ harness: c02_image_compact c02_image_unknown_first c02_image_spelling_literal c02_image_spelling_escaped
//@ tier: quick
//@ timeout: 1200
//@ mem: 12
//@ unwindset: read_sig=66; memchr=12; parse_json_event=12; json_unescape=40; read_id=34; read_pubkey=34; read_hex=66; memcmp.0=34; copy_text=600; read_u64=22; read_kind=8; burn_string=26; eat_whitespace=6; burn_number=12; patch_site=24; digits=24; fpatch=24; put_bytes=70; enc_tags=6
//@ encodes: Event::from_json, parse_json_event (every byte of the output image incl. the padding bytes, the tag offsets and empty-tag counts), json_unescape
//@ bounds: four constant texts denoting the same event up to content - compact order 1; the same preceded by an unknown member; content "a\n/\u00e9\"" spelled literally and spelled entirely with \uXXXX / two-character escapes - each parsed into a 200-byte buffer with ARBITRARY prior contents: the image equals the reference encoder's image of the denoted parts at every index (so it does not depend on the buffer, the layout or the spelling, and equals what from_parts builds, cf. C19)
//@ outside: the texts are constant (C01 header); other layouts
canonical!(c02_image_compact, L1, b"hi\n");
canonical!(c02_image_unknown_first, L5, b"hi\n");
canonical!(c02_image_spelling_literal, SP_A, b"a\n/\xc3\xa9\"");
canonical!(c02_image_spelling_escaped, SP_B, b"a\n/\xc3\xa9\"");

/// reference escaper for one ASCII byte (NIP-01 canonical escapes), returns the length
fn ref_escape(c: u8, out: &mut [u8; 6]) -> usize {
    let two = |out: &mut [u8; 6], x: u8| {
        out[0] = b'\\';
        out[1] = x;
        2
    };
    match c {
        0x08 => two(out, b'b'),
        0x09 => two(out, b't'),
        0x0A => two(out, b'n'),
        0x0C => two(out, b'f'),
        0x0D => two(out, b'r'),
        0x22 => two(out, b'"'),
        0x5C => two(out, b'\\'),
        _ if c < 0x20 => {
            let hexd = |n: u8| if n < 10 { b'0' + n } else { b'a' + (n - 10) };
            out[0] = b'\\';
            out[1] = b'u';
            out[2] = b'0';
            out[3] = b'0';
            out[4] = hexd(c >> 4);
            out[5] = hexd(c & 15);
            6
        }
        _ => {
            out[0] = c;
            1
        }
    }
}

//@ harness: c02_as_json_roundtrip
//@ tier: thorough
//@ timeout: 3000
//@ mem: 20
//@ unwindset: read_sig=66; memchr=12; parse_json_event=12; json_unescape=40; read_id=34; read_pubkey=34; read_hex=66; memcmp.0=34; write_hex=66; as_json=70; push=130; c02_as_json=130; extend=140; json_escape=8; copy_text=600; read_u64=22; read_kind=8; burn_string=26; eat_whitespace=6; burn_number=12; patch_site=24; digits=24; fpatch=24; put_bytes=70; enc_tags=6
//@ encodes: Event::as_json, Tags::as_json, json_escape, Event::from_json, json_unescape
//@ bounds: an event held by the library (image from the reference encoder) with tags [["e", s(1)], []] and a 2-byte content; the tag byte and the second content byte are arbitrary ASCII 0x00..=0x7f incl. every control character, quote and backslash, the first content byte is a concrete control character (0x1f), kind 30023, created_at 1681778790: the serialised text equals the reference writer's text byte for byte (canonical NIP-01 escapes), and parsing it back gives a byte-identical event
//@ outside: non-ASCII strings, symbolic integers (format! of a symbolic u64 is a division kernel that does not finish in budget), longer strings
#[kani::proof]
#[kani::unwind(8)]
#[kani::stub(core::panic::Location::caller, stub_caller)]
fn c02_as_json_roundtrip() {
    let tv: u8 = kani::any();
    let c1: u8 = kani::any();
    kani::assume(tv < 0x80 && c1 < 0x80);
    let pool = [b'e', tv];
    let shape: [&[usize]; 2] = [&[1, 1], &[]];
    let content = [0x1fu8, c1];
    let mut img = [0u8; 200];
    let n = enc_event_img(30023, 1681778790, &ID_BIN, &PK_BIN, &SIG_BIN, &shape, &pool, &content, &mut img);
    let is_: &[u8] = &img[..n];
    let ev: &Event = unsafe { &*(is_ as *const [u8] as *const Event) };
    let json = match ev.as_json() {
        Ok(j) => j,
        Err(e) => {
            core::mem::forget(e);
            panic!("as_json failed")
        }
    };
    // reference text
    let mut r = [0u8; 420];
    let mut p = 0;
    let mut push = |r: &mut [u8; 420], p: &mut usize, s: &[u8]| {
        let mut i = 0;
        while i < s.len() {
            r[*p] = s[i];
            *p += 1;
            i += 1;
        }
    };
    push(&mut r, &mut p, b"{\"id\":\"");
    push(&mut r, &mut p, ID_HEX);
    push(&mut r, &mut p, b"\",\"pubkey\":\"");
    push(&mut r, &mut p, PK_HEX);
    push(&mut r, &mut p, b"\",\"kind\":30023,\"created_at\":1681778790,\"tags\":[[\"e\",\"");
    let mut eb = [0u8; 6];
    let l = ref_escape(tv, &mut eb);
    push(&mut r, &mut p, &eb[..l]);
    push(&mut r, &mut p, b"\"],[]],\"content\":\"\\u001f");
    let l = ref_escape(c1, &mut eb);
    push(&mut r, &mut p, &eb[..l]);
    push(&mut r, &mut p, b"\",\"sig\":\"");
    push(&mut r, &mut p, SIG_HEX);
    push(&mut r, &mut p, b"\"}");
    assert!(json.len() == p);
    let i: usize = kani::any();
    kani::assume(i < p);
    kani::cover!(c1 == b'"' && tv == 0x00);
    assert!(json[i] == r[i]);
    // and back
    let mut out: [u8; 200] = kani::any();
    let (consumed, ev2) = match Event::from_json(&json, &mut out) {
        Ok(x) => x,
        Err(e) => {
            core::mem::forget(e);
            panic!("own JSON rejected")
        }
    };
    assert!(consumed == p && ev2.len() == n);
    let k: usize = kani::any();
    kani::assume(k < n);
    assert!(ev2.as_bytes()[k] == img[k]);
    core::mem::forget(json);
}

//@ harness: c02_image_deferred_ws_unknown
//@ tier: thorough
//@ timeout: 3000
//@ mem: 16
//@ unwindset: read_sig=66; memchr=12; parse_json_event=12; json_unescape=40; read_id=34; read_pubkey=34; read_hex=66; memcmp.0=34; copy_text=600; read_u64=22; read_kind=8; burn_string=26; eat_whitespace=6; burn_number=12; patch_site=24; digits=24; fpatch=24; put_bytes=70; enc_tags=6
//@ encodes: Event::from_json, parse_json_event (deferred content)
//@ bounds: the same event written in order 2 with whitespace, two unknown members and deferred content (426 bytes), arbitrary prior buffer: image equals the reference image
canonical!(c02_image_deferred_ws_unknown, L4, b"hi\n");
