// Shared prelude for pocket-db harness modules (`include!`d).  Environment stubs
// (DESIGN.md 2.3 / 3.2); each is part of the claim and is listed in evidence.
static VERIF_DUMMY_LOC: [u64; 4] = [0; 4];
pub fn stub_caller<'a>() -> &'static core::panic::Location<'a> {
    unsafe { &*(VERIF_DUMMY_LOC.as_ptr() as *const core::panic::Location<'a>) }
}
/// std::hash::RandomState::new -> fixed keys (Lmdb keeps its extra tables in a HashMap;
/// hash order is not observable through any property)
pub fn stub_random_state() -> std::hash::RandomState {
    unsafe { core::mem::transmute::<[u64; 2], std::hash::RandomState>([1, 2]) }
}
/// <io::Error as Display>::fmt -> the only message the mmap-append model produces
pub fn stub_io_error_fmt(_e: &std::io::Error, f: &mut core::fmt::Formatter<'_>) -> core::fmt::Result {
    f.write_str("Out of space")
}
/// File::set_len on the model file
pub fn stub_set_len(_f: &std::fs::File, size: u64) -> std::io::Result<()> {
    if mmap_append::verif::file_set_len(size as usize) {
        Ok(())
    } else {
        panic!("model limit: file larger than the modelled capacity")
    }
}
/// OpenOptions::open -> a handle on the model file (created empty if absent)
pub fn stub_open<P: AsRef<std::path::Path>>(_o: &std::fs::OpenOptions, _p: P) -> std::io::Result<std::fs::File> {
    mmap_append::verif::file_open_create();
    Ok(unsafe { <std::fs::File as std::os::unix::io::FromRawFd>::from_raw_fd(1000) })
}
/// File::metadata / Metadata::len -> length of the model file
pub fn stub_metadata(_f: &std::fs::File) -> std::io::Result<std::fs::Metadata> {
    Ok(unsafe { core::mem::zeroed() })
}
pub fn stub_metadata_len(_m: &std::fs::Metadata) -> u64 {
    mmap_append::verif::file_len() as u64
}
pub fn stub_create_dir<P: AsRef<std::path::Path>>(_p: P) -> std::io::Result<()> {
    Ok(())
}
/// Time::now -> the instant the harness chose (arbitrary unless the harness sets it)
pub static mut VERIF_NOW: u64 = 0;
pub fn stub_now() -> pocket_types::Time {
    pocket_types::Time::from_u64(unsafe { VERIF_NOW })
}

/// `unwrap()` without the Debug-formatting path and without drop glue for the error
/// (both drag `io::Error`'s `dyn Error` drop and the stderr writer into symbolic execution)
macro_rules! ok {
    ($e:expr) => {
        match $e {
            Ok(v) => v,
            Err(err) => {
                core::mem::forget(err);
                panic!("unexpected Err")
            }
        }
    };
}
macro_rules! some {
    ($e:expr) => {
        match $e {
            Some(v) => v,
            None => panic!("unexpected None"),
        }
    };
}

/// `e.to_string()` for an io::Error -> the only message the mmap-append model produces
/// (going through `Formatter`'s `&mut dyn Write` leaves the String's buffer pointer
/// undetermined for CBMC; the result of the comparison in EventStore::store_event is what matters)
/// (the blanket `impl<T: Display> ToString for T` has one generic parameter, so the stub is
/// generic too: in harnesses that use it, *every* `to_string()` returns this text - the only
/// `to_string()` on the EventStore paths is the one on the io::Error)
pub fn stub_io_to_string<T: ?Sized>(_e: &T) -> String {
    String::from("Out of space")
}

/// closing a file descriptor is a no-op on the model file (the real one calls libc::close)
pub fn stub_fd_drop(_f: &mut std::os::fd::OwnedFd) {}
