//@@ property: C20
//@@ crate: types
//@@ mount: pocket-types/src/hll8.rs
// Child module of `hll8` so that arbitrary register states can be built
// directly (`Hll8([u8; 256])` has a private field).
use super::Hll8;
include!("common.rs");

fn any_state() -> Hll8 {
    let a: [u8; 256] = kani::any();
    Hll8(a)
}
fn any_idx() -> usize {
    let i: usize = kani::any();
    kani::assume(i < 256);
    i
}
/// model of f64::powi for the base the code uses (2.0): exact power of two
pub fn powi_model(x: f64, n: i32) -> f64 {
    if x == 2.0 && n >= -1022 && n <= 1023 {
        f64::from_bits(((1023 + n) as u64) << 52)
    } else {
        kani::any()
    }
}
/// reference rho: 1 + number of leading zero *bits* of input[offset+1..32]
fn ref_rho(e: &[u8; 32], offset: usize) -> u8 {
    let mut zeros: u32 = 0;
    let mut i = offset + 1;
    while i < 32 {
        let b = e[i];
        let mut bit: u32 = 0;
        let mut stop = false;
        while bit < 8 {
            if (b >> (7 - bit)) & 1 == 1 {
                stop = true;
                break;
            }
            zeros += 1;
            bit += 1;
        }
        if stop {
            break;
        }
        i += 1;
    }
    (zeros + 1) as u8
}

//@ harness: c20_merge_commutes
//@ tier: quick
//@ timeout: 400
//@ encodes: Hll8::add_assign
//@ bounds: two arbitrary 256-register states (whole state space); equality asserted at a symbolic index
#[kani::proof]
#[kani::unwind(258)]
#[kani::stub(core::panic::Location::caller, stub_caller)]
fn c20_merge_commutes() {
    let a = any_state();
    let b = any_state();
    let mut x = a;
    let mut y = b;
    x += b;
    y += a;
    let i = any_idx();
    kani::cover!(x.0[i] != a.0[i]);
    assert!(x.0[i] == y.0[i]);
    // merge = register-wise max
    assert!(x.0[i] == if a.0[i] > b.0[i] { a.0[i] } else { b.0[i] });
}

//@ harness: c20_merge_assoc_idem
//@ tier: quick
//@ timeout: 600
//@ encodes: Hll8::add_assign
//@ bounds: three arbitrary 256-register states; (a+b)+c == a+(b+c), a+a == a at a symbolic index
#[kani::proof]
#[kani::unwind(258)]
#[kani::stub(core::panic::Location::caller, stub_caller)]
fn c20_merge_assoc_idem() {
    let a = any_state();
    let b = any_state();
    let c = any_state();
    let mut l = a;
    l += b;
    l += c;
    let mut bc = b;
    bc += c;
    let mut r = a;
    r += bc;
    let mut aa = a;
    aa += a;
    let i = any_idx();
    kani::cover!(l.0[i] == c.0[i] && c.0[i] > a.0[i]);
    assert!(l.0[i] == r.0[i]);
    assert!(aa.0[i] == a.0[i]);
}

//@ harness: c20_add_element_spec
//@ tier: quick
//@ timeout: 600
//@ encodes: Hll8::add_element, Hll8::add_element_inner
//@ bounds: arbitrary prior state, arbitrary 32-byte element, arbitrary usize offset (all of them)
#[kani::proof]
#[kani::unwind(34)]
#[kani::stub(core::panic::Location::caller, stub_caller)]
fn c20_add_element_spec() {
    let before = any_state();
    let mut h = before;
    let e: [u8; 32] = kani::any();
    let off: usize = kani::any();
    let r = h.add_element(&e, off);
    let i = any_idx();
    if off >= 24 {
        assert!(r.is_err());
        assert!(h.0[i] == before.0[i]);
        core::mem::forget(r);
    } else {
        assert!(r.is_ok());
        let rho = ref_rho(&e, off);
        kani::cover!(rho > 9 && h.0[i] != before.0[i]);
        let idx = e[off] as usize;
        if i == idx {
            assert!(h.0[i] == if rho > before.0[i] { rho } else { before.0[i] });
        } else {
            assert!(h.0[i] == before.0[i]);
        }
        // idempotent
        let mut h2 = h;
        let _ = h2.add_element(&e, off);
        assert!(h2.0[i] == h.0[i]);
    }
}

//@ harness: c20_add_order_union_off0 c20_add_order_union_off16 c20_add_order_union_off23
//@ tier: quick
//@ timeout: 900
//@ encodes: Hll8::add_element, Hll8::add_assign
//@ bounds: three arbitrary 32-byte elements, arbitrary start state; offset is the instance (0, 16, 23; all offsets are covered by c20_add_element_spec); both insertion orders of two elements; union of {e1,e2} and {e2,e3}
//@ outside: the union law at the other 21 offsets is implied by c20_add_element_spec + c20_merge_commutes (merge = register-wise max), an argument by reading
#[kani::proof]
#[kani::unwind(258)]
#[kani::stub(core::panic::Location::caller, stub_caller)]
fn c20_add_order_union_off0() {
    add_order_union(0);
}
#[kani::proof]
#[kani::unwind(258)]
#[kani::stub(core::panic::Location::caller, stub_caller)]
fn c20_add_order_union_off16() {
    add_order_union(16);
}
#[kani::proof]
#[kani::unwind(258)]
#[kani::stub(core::panic::Location::caller, stub_caller)]
fn c20_add_order_union_off23() {
    add_order_union(23);
}
fn add_order_union(off: usize) {
    let e1: [u8; 32] = kani::any();
    let e2: [u8; 32] = kani::any();
    let e3: [u8; 32] = kani::any();
    let start = any_state();
    // order independence from an arbitrary start state
    let mut x = start;
    let mut y = start;
    x.add_element(&e1, off).unwrap();
    x.add_element(&e2, off).unwrap();
    y.add_element(&e2, off).unwrap();
    y.add_element(&e1, off).unwrap();
    let i = any_idx();
    assert!(x.0[i] == y.0[i]);
    // sketch(A u B) == merge(sketch(A), sketch(B)), A = {e1,e2}, B = {e2,e3}
    let mut a = Hll8::new();
    a.add_element(&e1, off).unwrap();
    a.add_element(&e2, off).unwrap();
    let mut b = Hll8::new();
    b.add_element(&e2, off).unwrap();
    b.add_element(&e3, off).unwrap();
    let mut u = Hll8::new();
    u.add_element(&e1, off).unwrap();
    u.add_element(&e2, off).unwrap();
    u.add_element(&e3, off).unwrap();
    let mut m = a;
    m += b;
    kani::cover!(u.0[i] > 8 && e1[off] != e3[off]);
    assert!(u.0[i] == m.0[i]);
}

//@ harness: c20_hex_export_edges
//@ tier: quick
//@ timeout: 900
//@ encodes: Hll8::to_hex_string, write_hex!
//@ bounds: 256-register state whose registers 0 and 255 are arbitrary and the rest concrete: export is 512 bytes, the four digits of the symbolic registers equal the reference lower-case encoding, the concrete ones are as expected
//@ outside: Hll8::from_hex_string on symbolic text (symex of its 256-iteration read_hex! loop does not finish in budget even with two symbolic bytes: > 400 s, 12 GB); import is decided on the same macro body for every 32-byte value in c20_hex_macro_roundtrip_32; that the 256-byte instantiation behaves like the 32-byte one is by reading
#[kani::proof]
#[kani::unwind(514)]
#[kani::stub(core::panic::Location::caller, stub_caller)]
fn c20_hex_export_edges() {
    let mut a: [u8; 256] = [0x3c; 256];
    a[0] = kani::any();
    a[255] = kani::any();
    let s = Hll8(a);
    let text = s.to_hex_string();
    assert!(text.len() == 512);
    let tb = text.as_bytes();
    let hexd = |n: u8| -> u8 { if n < 10 { b'0' + n } else { b'a' + (n - 10) } };
    kani::cover!(a[0] == 0xfa && a[255] == 0x0b);
    assert!(tb[0] == hexd(a[0] >> 4) && tb[1] == hexd(a[0] & 15));
    assert!(tb[510] == hexd(a[255] >> 4) && tb[511] == hexd(a[255] & 15));
    assert!(tb[2] == b'3' && tb[3] == b'c' && tb[508] == b'3' && tb[509] == b'c');
    core::mem::forget(text);
}

//@ harness: c20_hex_macro_roundtrip_32
//@ tier: quick
//@ timeout: 1200
//@ encodes: write_hex!, read_hex! (32-byte instantiation, via Id)
//@ bounds: every 32-byte value: read_hex(write_hex(v)) == v, output is lower-case hex
#[kani::proof]
#[kani::unwind(66)]
#[kani::stub(core::panic::Location::caller, stub_caller)]
fn c20_hex_macro_roundtrip_32() {
    let v: [u8; 32] = kani::any();
    let id = crate::Id::from_bytes(v);
    let mut out = [0u8; 64];
    let w = id.write_hex(&mut out);
    assert!(w.is_ok());
    let j: usize = kani::any();
    kani::assume(j < 64);
    assert!((out[j] >= b'0' && out[j] <= b'9') || (out[j] >= b'a' && out[j] <= b'f'));
    let back = crate::Id::read_hex(&out);
    assert!(back.is_ok());
    let back = back.unwrap();
    let i: usize = kani::any();
    kani::assume(i < 32);
    kani::cover!(v[i] == 0xfa);
    assert!(back.as_slice()[i] == v[i]);
}

//@ harness: c20_estimate_empty_is_zero
//@ tier: quick
//@ timeout: 600
//@ covers: none
//@ encodes: Hll8::estimate_count, estimate_hyperloglog
//@ bounds: the single empty state (no symbolic input): estimate is 0 and nothing panics (exercises the linear-counting branch with ln)
//@ assumes: Kani/CBMC's model of f64 powi and ln on constant arguments
#[kani::proof]
#[kani::unwind(258)]
#[kani::stub(core::panic::Location::caller, stub_caller)]
#[kani::stub(f64::powi, powi_model)]
fn c20_estimate_empty_is_zero() {
    let h = Hll8::new();
    assert!(h.estimate_count() == 0);
}

//@ harness: c20_estimate_single_extreme_first c20_estimate_single_extreme_last
//@ tier: quick
//@ timeout: 600
//@ encodes: Hll8::estimate_count
//@ bounds: all registers 5 except one (index 0 / index 255) holding an arbitrary value 0..=255: no panic (shift overflow, cast), result finite and non-zero
//@ assumes: stub f64::powi -> exact power of two for base 2.0 and |n| <= 1022 (IEEE-754: 2^n is representable), arbitrary otherwise (CBMC's own pow model does not finish on a symbolic exponent)
//@ timeout: 900
//@ outside: arbitrary multi-register states through the f64 sum (the 256-term f64 sum over arbitrary registers does not bit-blast in budget: probe > 10 min)
#[kani::proof]
#[kani::unwind(258)]
#[kani::stub(core::panic::Location::caller, stub_caller)]
#[kani::stub(f64::powi, powi_model)]
fn c20_estimate_single_extreme_first() {
    estimate_single(0);
}
#[kani::proof]
#[kani::unwind(258)]
#[kani::stub(core::panic::Location::caller, stub_caller)]
#[kani::stub(f64::powi, powi_model)]
fn c20_estimate_single_extreme_last() {
    estimate_single(255);
}
fn estimate_single(idx: usize) {
    let mut a: [u8; 256] = [5; 256];
    let v: u8 = kani::any();
    a[idx] = v;
    let x = Hll8(a);
    kani::cover!(v == 255);
    let n = x.estimate_count();
    assert!(n < usize::MAX);
    assert!(n > 0);
}
