//@@ property: C03
//@@ crate: types
//@@ mount: pocket-types/src/lib.rs
use crate::{Addr, Event, Filter, Hll8, Id, Pubkey, Sig, Tags};
include!("common.rs");
include!("texts.rs");

// ---------------------------------------------------------------- hex ------

//@ harness: c03_hex_id_all
//@ tier: quick
//@ timeout: 900
//@ encodes: Id::read_hex, read_hex!, HEX_INVERSE
//@ bounds: every 64-byte input (all 256^64 byte strings, including bytes >= 0x80): no panic; accepted iff all 64 bytes are hex digits
#[kani::proof]
#[kani::unwind(66)]
#[kani::stub(core::panic::Location::caller, stub_caller)]
fn c03_hex_id_all() {
    let inp: [u8; 64] = kani::any();
    let r = Id::read_hex(&inp);
    let i: usize = kani::any();
    kani::assume(i < 64);
    let is_hex = |c: u8| c.is_ascii_hexdigit();
    match r {
        Ok(id) => {
            kani::cover!(inp[i] == b'F');
            assert!(is_hex(inp[i]));
            let _ = id.as_slice();
        }
        Err(e) => core::mem::forget(e),
    }
}

//@ harness: c03_hex_lengths
//@ tier: quick
//@ timeout: 900
//@ encodes: Id::read_hex, Pubkey::read_hex, Sig::read_hex, Id::write_hex
//@ bounds: arbitrary 130-byte buffer cut at every length 0..=130 (symbolic): no panic; Id/Pubkey accept only length 64, Sig only 128; write_hex into every output length 0..=66 errs unless the length is 64
#[kani::proof]
#[kani::unwind(132)]
#[kani::stub(core::panic::Location::caller, stub_caller)]
fn c03_hex_lengths() {
    let buf: [u8; 130] = kani::any();
    let n: usize = kani::any();
    kani::assume(n <= 130);
    kani::assume(n != 64 && n != 128); // the full-length case is c03_hex_id_all
    let a = Id::read_hex(&buf[..n]);
    assert!(a.is_err());
    core::mem::forget(a);
    let b = Pubkey::read_hex(&buf[..n]);
    assert!(b.is_err());
    core::mem::forget(b);
    let c = Sig::read_hex(&buf[..n]);
    assert!(c.is_err());
    core::mem::forget(c);
    let id = Id::from_bytes(ID_BIN);
    let mut out = [0u8; 66];
    let m: usize = kani::any();
    kani::assume(m <= 66);
    let w = id.write_hex(&mut out[..m]);
    kani::cover!(m == 64);
    assert!(w.is_ok() == (m == 64));
    core::mem::forget(w);
}

//@ harness: c03_hll_hex_nonascii
//@ tier: thorough
//@ timeout: 2400
//@ encodes: Hll8::from_hex_string, read_hex!, HEX_INVERSE
//@ bounds: a 512-byte str whose first two bytes are an arbitrary well-formed 2-byte UTF-8 character or two arbitrary ASCII bytes (the rest concrete hex): no panic
//@ outside: symbolic bytes at later positions of the 512-byte text (the 256-iteration loop after a symbolic early exit does not finish in budget; the macro body is decided on all 64-byte inputs by c03_hex_id_all)
#[kani::proof]
#[kani::unwind(514)]
#[kani::stub(core::panic::Location::caller, stub_caller)]
fn c03_hll_hex_nonascii() {
    let mut t = [b'0'; 512];
    let a: u8 = kani::any();
    let b: u8 = kani::any();
    kani::assume((a < 0x80 && b < 0x80) || (a >= 0xC2 && a <= 0xDF && b >= 0x80 && b <= 0xBF));
    // keep the loop short: unless both are hex digits the text is rejected at once; exclude the all-hex case
    kani::assume(!(a.is_ascii_hexdigit() && b.is_ascii_hexdigit()));
    t[0] = a;
    t[1] = b;
    let s = core::str::from_utf8(&t);
    assert!(s.is_ok());
    let r = Hll8::from_hex_string(s.unwrap());
    kani::cover!(a >= 0xC2);
    assert!(r.is_err());
    core::mem::forget(r);
}

// --------------------------------------------------------------- addr ------

//@ harness: c03_addr_arb6
//@ tier: quick
//@ timeout: 1200
//@ encodes: Addr::try_from_bytes, Kind::try_from_string_bytes, Pubkey::read_hex
//@ bounds: every input of length 0..=6 (arbitrary bytes): no panic (such inputs can never hold a 64-digit author, so the result is always an error)
#[kani::proof]
#[kani::unwind(10)]
#[kani::stub(core::panic::Location::caller, stub_caller)]
fn c03_addr_arb6() {
    let buf: [u8; 6] = kani::any();
    let n: usize = kani::any();
    kani::assume(n <= 6);
    let r = Addr::try_from_bytes(&buf[..n]);
    assert!(r.is_err());
    core::mem::forget(r);
}

//@ harness: c03_addr_template
//@ tier: thorough
//@ timeout: 3000
//@ encodes: Addr::try_from_bytes, Kind::try_from_string_bytes, Pubkey::read_hex
//@ bounds: the text K:<64 hex digits>:D with K = 1..=5 arbitrary bytes without ':' (symbolic length) and D = 3 arbitrary bytes (':' allowed), two arbitrary bytes inside the author: no panic; when accepted, kind/author/d are the parts
#[kani::proof]
#[kani::unwind(80)]
#[kani::stub(core::panic::Location::caller, stub_caller)]
fn c03_addr_template() {
    let k: [u8; 5] = kani::any();
    let kl: usize = kani::any();
    kani::assume(kl >= 1 && kl <= 5);
    let d: [u8; 3] = kani::any();
    let mut t = [0u8; 5 + 1 + 64 + 1 + 3];
    let mut p = 0;
    let mut i = 0;
    while i < kl {
        kani::assume(k[i] != b':');
        t[p] = k[i];
        p += 1;
        i += 1;
    }
    t[p] = b':';
    p += 1;
    let mut q = 0;
    while q < 64 {
        t[p + q] = PK_HEX[q];
        q += 1;
    }
    let x0: u8 = kani::any();
    let x1: u8 = kani::any();
    t[p] = x0;
    t[p + 63] = x1;
    p += 64;
    t[p] = b':';
    p += 1;
    t[p] = d[0];
    t[p + 1] = d[1];
    t[p + 2] = d[2];
    p += 3;
    let r = Addr::try_from_bytes(&t[..p]);
    match r {
        Ok(addr) => {
            kani::cover!(addr.kind.as_u16() == 30023);
            assert!(x0.is_ascii_hexdigit() && x1.is_ascii_hexdigit());
            assert!(addr.d.len() == 3 && addr.d[0] == d[0] && addr.d[1] == d[1] && addr.d[2] == d[2]);
            core::mem::forget(addr);
        }
        Err(e) => core::mem::forget(e),
    }
}

// --------------------------------------------------------------- tags ------

fn walk_tags(tags: &Tags) {
    // accessors/iterators are total on a successful result
    let c = tags.count();
    let _ = tags.as_bytes().len();
    let _ = tags.get_string(0, 0);
    let _ = tags.get_string(1, 1);
    let _ = tags.get_string(c, 0);
    let _ = tags.get_value(b"e");
    let mut it = tags.iter();
    if let Some(mut t0) = it.next() {
        let _ = t0.next();
        let _ = t0.next();
    }
    let _ = it.next();
}

fn tags_arb<const N: usize>() {
    let buf: [u8; N] = kani::any();
    let n: usize = kani::any();
    kani::assume(n <= N);
    let mut out = [0u8; 24];
    let r = Tags::from_json(&buf[..n], &mut out);
    match r {
        Ok((consumed, tags)) => {
            kani::cover!(consumed == 2);
            assert!(consumed <= n);
            walk_tags(tags);
        }
        Err(e) => core::mem::forget(e),
    }
}

//@ harness: c03_tags_arb2
//@ tier: thorough
//@ timeout: 1500
//@ mem: 12
//@ encodes: Tags::from_json, read_tags_array, count_tags, burn_tag, read_tag
//@ bounds: every input of length 0..=2 (arbitrary bytes), 24-byte output: no panic, consumed <= length, accessors total
//@ outside: arbitrary inputs longer than 2 bytes in quick (3 in thorough; 4 did not finish in 37 min in the design probe)
#[kani::proof]
#[kani::unwind(6)]
#[kani::stub(core::panic::Location::caller, stub_caller)]
fn c03_tags_arb2() {
    tags_arb::<2>();
}

//@ harness: c03_tags_arb3
//@ tier: thorough
//@ timeout: 3000
//@ mem: 16
//@ encodes: Tags::from_json, read_tags_array, count_tags, burn_tag, read_tag
//@ bounds: every input of length 0..=3 (arbitrary bytes)
#[kani::proof]
#[kani::unwind(7)]
#[kani::stub(core::panic::Location::caller, stub_caller)]
fn c03_tags_arb3() {
    tags_arb::<3>();
}

/// the valid text cut after n bytes (pure truncation), arbitrary prior output buffer
fn tags_prefix_at(n: usize) {
    let mut out: [u8; 48] = kani::any();
    match Tags::from_json(&TAGS_T2[..n], &mut out) {
        Ok((consumed, tags)) => {
            assert!(consumed <= n);
            walk_tags(tags);
        }
        Err(e) => core::mem::forget(e),
    }
}

/// the valid text parsed into an output buffer of exactly m bytes, arbitrary prior contents
fn tags_outlen_at(m: usize) {
    let need = 4 + 6 + (2 + 3 + 4) + (2 + 3) + 2; // header, 3 offsets, ["e","ab"], ["p"], []
    let mut out: [u8; 40] = kani::any();
    match Tags::from_json(TAGS_T1, &mut out[..m]) {
        Ok((consumed, tags)) => {
            assert!(m >= need);
            assert!(consumed == TAGS_T1.len());
            assert!(tags.as_bytes().len() == need);
            walk_tags(tags);
        }
        Err(e) => {
            assert!(m < need);
            core::mem::forget(e);
        }
    }
}

//@ harness: c03_tags_prefix_0
//@ tier: seeded
//@ group: tags_prefix
//@ timeout: 900
//@ mem: 10
//@ covers: none
//@ unwindset: memcmp.0=12; burn_string=12; eat_whitespace=6; json_unescape=8; memchr=12; walk_tags=6
//@ encodes: Tags::from_json, read_tags_array, count_tags, burn_tag, burn_string, read_tag, json_unescape
//@ bounds: the valid text `[ ["a","b\\n"] , [] ]` (20 bytes) cut after 0 bytes, arbitrary prior output buffer: no panic, consumed <= length, accessors total
//@ outside: lengths that are not an instance of this family; arbitrary input bytes at this level (decided on the kernels; thorough: c03_tags_arb2 / c03_filter_arb3)
#[kani::proof]
#[kani::unwind(8)]
#[kani::stub(core::panic::Location::caller, stub_caller)]
fn c03_tags_prefix_0() {
    tags_prefix_at(0);
}

//@ harness: c03_tags_prefix_1
//@ tier: seeded
//@ group: tags_prefix
//@ timeout: 900
//@ mem: 10
//@ covers: none
//@ unwindset: memcmp.0=12; burn_string=12; eat_whitespace=6; json_unescape=8; memchr=12; walk_tags=6
//@ encodes: Tags::from_json, read_tags_array, count_tags, burn_tag, burn_string, read_tag, json_unescape
//@ bounds: the valid text `[ ["a","b\\n"] , [] ]` (20 bytes) cut after 1 bytes, arbitrary prior output buffer: no panic, consumed <= length, accessors total
//@ outside: lengths that are not an instance of this family; arbitrary input bytes at this level (decided on the kernels; thorough: c03_tags_arb2 / c03_filter_arb3)
#[kani::proof]
#[kani::unwind(8)]
#[kani::stub(core::panic::Location::caller, stub_caller)]
fn c03_tags_prefix_1() {
    tags_prefix_at(1);
}

//@ harness: c03_tags_prefix_2
//@ tier: seeded
//@ group: tags_prefix
//@ timeout: 900
//@ mem: 10
//@ covers: none
//@ unwindset: memcmp.0=12; burn_string=12; eat_whitespace=6; json_unescape=8; memchr=12; walk_tags=6
//@ encodes: Tags::from_json, read_tags_array, count_tags, burn_tag, burn_string, read_tag, json_unescape
//@ bounds: the valid text `[ ["a","b\\n"] , [] ]` (20 bytes) cut after 2 bytes, arbitrary prior output buffer: no panic, consumed <= length, accessors total
//@ outside: lengths that are not an instance of this family; arbitrary input bytes at this level (decided on the kernels; thorough: c03_tags_arb2 / c03_filter_arb3)
#[kani::proof]
#[kani::unwind(8)]
#[kani::stub(core::panic::Location::caller, stub_caller)]
fn c03_tags_prefix_2() {
    tags_prefix_at(2);
}

//@ harness: c03_tags_prefix_3
//@ tier: quick
//@ timeout: 900
//@ mem: 10
//@ covers: none
//@ unwindset: memcmp.0=12; burn_string=12; eat_whitespace=6; json_unescape=8; memchr=12; walk_tags=6
//@ encodes: Tags::from_json, read_tags_array, count_tags, burn_tag, burn_string, read_tag, json_unescape
//@ bounds: the valid text `[ ["a","b\\n"] , [] ]` (20 bytes) cut after 3 bytes, arbitrary prior output buffer: no panic, consumed <= length, accessors total
//@ outside: lengths that are not an instance of this family; arbitrary input bytes at this level (decided on the kernels; thorough: c03_tags_arb2 / c03_filter_arb3)
#[kani::proof]
#[kani::unwind(8)]
#[kani::stub(core::panic::Location::caller, stub_caller)]
fn c03_tags_prefix_3() {
    tags_prefix_at(3);
}

//@ harness: c03_tags_prefix_4
//@ tier: seeded
//@ group: tags_prefix
//@ timeout: 900
//@ mem: 10
//@ covers: none
//@ unwindset: memcmp.0=12; burn_string=12; eat_whitespace=6; json_unescape=8; memchr=12; walk_tags=6
//@ encodes: Tags::from_json, read_tags_array, count_tags, burn_tag, burn_string, read_tag, json_unescape
//@ bounds: the valid text `[ ["a","b\\n"] , [] ]` (20 bytes) cut after 4 bytes, arbitrary prior output buffer: no panic, consumed <= length, accessors total
//@ outside: lengths that are not an instance of this family; arbitrary input bytes at this level (decided on the kernels; thorough: c03_tags_arb2 / c03_filter_arb3)
#[kani::proof]
#[kani::unwind(8)]
#[kani::stub(core::panic::Location::caller, stub_caller)]
fn c03_tags_prefix_4() {
    tags_prefix_at(4);
}

//@ harness: c03_tags_prefix_5
//@ tier: seeded
//@ group: tags_prefix
//@ timeout: 900
//@ mem: 10
//@ covers: none
//@ unwindset: memcmp.0=12; burn_string=12; eat_whitespace=6; json_unescape=8; memchr=12; walk_tags=6
//@ encodes: Tags::from_json, read_tags_array, count_tags, burn_tag, burn_string, read_tag, json_unescape
//@ bounds: the valid text `[ ["a","b\\n"] , [] ]` (20 bytes) cut after 5 bytes, arbitrary prior output buffer: no panic, consumed <= length, accessors total
//@ outside: lengths that are not an instance of this family; arbitrary input bytes at this level (decided on the kernels; thorough: c03_tags_arb2 / c03_filter_arb3)
#[kani::proof]
#[kani::unwind(8)]
#[kani::stub(core::panic::Location::caller, stub_caller)]
fn c03_tags_prefix_5() {
    tags_prefix_at(5);
}

//@ harness: c03_tags_prefix_6
//@ tier: seeded
//@ group: tags_prefix
//@ timeout: 900
//@ mem: 10
//@ covers: none
//@ unwindset: memcmp.0=12; burn_string=12; eat_whitespace=6; json_unescape=8; memchr=12; walk_tags=6
//@ encodes: Tags::from_json, read_tags_array, count_tags, burn_tag, burn_string, read_tag, json_unescape
//@ bounds: the valid text `[ ["a","b\\n"] , [] ]` (20 bytes) cut after 6 bytes, arbitrary prior output buffer: no panic, consumed <= length, accessors total
//@ outside: lengths that are not an instance of this family; arbitrary input bytes at this level (decided on the kernels; thorough: c03_tags_arb2 / c03_filter_arb3)
#[kani::proof]
#[kani::unwind(8)]
#[kani::stub(core::panic::Location::caller, stub_caller)]
fn c03_tags_prefix_6() {
    tags_prefix_at(6);
}

//@ harness: c03_tags_prefix_7
//@ tier: seeded
//@ group: tags_prefix
//@ timeout: 900
//@ mem: 10
//@ covers: none
//@ unwindset: memcmp.0=12; burn_string=12; eat_whitespace=6; json_unescape=8; memchr=12; walk_tags=6
//@ encodes: Tags::from_json, read_tags_array, count_tags, burn_tag, burn_string, read_tag, json_unescape
//@ bounds: the valid text `[ ["a","b\\n"] , [] ]` (20 bytes) cut after 7 bytes, arbitrary prior output buffer: no panic, consumed <= length, accessors total
//@ outside: lengths that are not an instance of this family; arbitrary input bytes at this level (decided on the kernels; thorough: c03_tags_arb2 / c03_filter_arb3)
#[kani::proof]
#[kani::unwind(8)]
#[kani::stub(core::panic::Location::caller, stub_caller)]
fn c03_tags_prefix_7() {
    tags_prefix_at(7);
}

//@ harness: c03_tags_prefix_8
//@ tier: seeded
//@ group: tags_prefix
//@ timeout: 900
//@ mem: 10
//@ covers: none
//@ unwindset: memcmp.0=12; burn_string=12; eat_whitespace=6; json_unescape=8; memchr=12; walk_tags=6
//@ encodes: Tags::from_json, read_tags_array, count_tags, burn_tag, burn_string, read_tag, json_unescape
//@ bounds: the valid text `[ ["a","b\\n"] , [] ]` (20 bytes) cut after 8 bytes, arbitrary prior output buffer: no panic, consumed <= length, accessors total
//@ outside: lengths that are not an instance of this family; arbitrary input bytes at this level (decided on the kernels; thorough: c03_tags_arb2 / c03_filter_arb3)
#[kani::proof]
#[kani::unwind(8)]
#[kani::stub(core::panic::Location::caller, stub_caller)]
fn c03_tags_prefix_8() {
    tags_prefix_at(8);
}

//@ harness: c03_tags_prefix_9
//@ tier: thorough
//@ timeout: 2400
//@ mem: 10
//@ covers: none
//@ unwindset: memcmp.0=12; burn_string=12; eat_whitespace=6; json_unescape=8; memchr=12; walk_tags=6
//@ encodes: Tags::from_json, read_tags_array, count_tags, burn_tag, burn_string, read_tag, json_unescape
//@ bounds: the valid text `[ ["a","b\\n"] , [] ]` (20 bytes) cut after 9 bytes, arbitrary prior output buffer: no panic, consumed <= length, accessors total
//@ outside: lengths that are not an instance of this family; arbitrary input bytes at this level (decided on the kernels; thorough: c03_tags_arb2 / c03_filter_arb3)
#[kani::proof]
#[kani::unwind(8)]
#[kani::stub(core::panic::Location::caller, stub_caller)]
fn c03_tags_prefix_9() {
    tags_prefix_at(9);
}

//@ harness: c03_tags_prefix_10
//@ tier: seeded
//@ group: tags_prefix
//@ timeout: 900
//@ mem: 10
//@ covers: none
//@ unwindset: memcmp.0=12; burn_string=12; eat_whitespace=6; json_unescape=8; memchr=12; walk_tags=6
//@ encodes: Tags::from_json, read_tags_array, count_tags, burn_tag, burn_string, read_tag, json_unescape
//@ bounds: the valid text `[ ["a","b\\n"] , [] ]` (20 bytes) cut after 10 bytes, arbitrary prior output buffer: no panic, consumed <= length, accessors total
//@ outside: lengths that are not an instance of this family; arbitrary input bytes at this level (decided on the kernels; thorough: c03_tags_arb2 / c03_filter_arb3)
#[kani::proof]
#[kani::unwind(8)]
#[kani::stub(core::panic::Location::caller, stub_caller)]
fn c03_tags_prefix_10() {
    tags_prefix_at(10);
}

//@ harness: c03_tags_prefix_11
//@ tier: seeded
//@ group: tags_prefix
//@ timeout: 900
//@ mem: 10
//@ covers: none
//@ unwindset: memcmp.0=12; burn_string=12; eat_whitespace=6; json_unescape=8; memchr=12; walk_tags=6
//@ encodes: Tags::from_json, read_tags_array, count_tags, burn_tag, burn_string, read_tag, json_unescape
//@ bounds: the valid text `[ ["a","b\\n"] , [] ]` (20 bytes) cut after 11 bytes, arbitrary prior output buffer: no panic, consumed <= length, accessors total
//@ outside: lengths that are not an instance of this family; arbitrary input bytes at this level (decided on the kernels; thorough: c03_tags_arb2 / c03_filter_arb3)
#[kani::proof]
#[kani::unwind(8)]
#[kani::stub(core::panic::Location::caller, stub_caller)]
fn c03_tags_prefix_11() {
    tags_prefix_at(11);
}

//@ harness: c03_tags_prefix_12
//@ tier: seeded
//@ group: tags_prefix
//@ timeout: 900
//@ mem: 10
//@ covers: none
//@ unwindset: memcmp.0=12; burn_string=12; eat_whitespace=6; json_unescape=8; memchr=12; walk_tags=6
//@ encodes: Tags::from_json, read_tags_array, count_tags, burn_tag, burn_string, read_tag, json_unescape
//@ bounds: the valid text `[ ["a","b\\n"] , [] ]` (20 bytes) cut after 12 bytes, arbitrary prior output buffer: no panic, consumed <= length, accessors total
//@ outside: lengths that are not an instance of this family; arbitrary input bytes at this level (decided on the kernels; thorough: c03_tags_arb2 / c03_filter_arb3)
#[kani::proof]
#[kani::unwind(8)]
#[kani::stub(core::panic::Location::caller, stub_caller)]
fn c03_tags_prefix_12() {
    tags_prefix_at(12);
}

//@ harness: c03_tags_prefix_13
//@ tier: seeded
//@ group: tags_prefix
//@ timeout: 900
//@ mem: 10
//@ covers: none
//@ unwindset: memcmp.0=12; burn_string=12; eat_whitespace=6; json_unescape=8; memchr=12; walk_tags=6
//@ encodes: Tags::from_json, read_tags_array, count_tags, burn_tag, burn_string, read_tag, json_unescape
//@ bounds: the valid text `[ ["a","b\\n"] , [] ]` (20 bytes) cut after 13 bytes, arbitrary prior output buffer: no panic, consumed <= length, accessors total
//@ outside: lengths that are not an instance of this family; arbitrary input bytes at this level (decided on the kernels; thorough: c03_tags_arb2 / c03_filter_arb3)
#[kani::proof]
#[kani::unwind(8)]
#[kani::stub(core::panic::Location::caller, stub_caller)]
fn c03_tags_prefix_13() {
    tags_prefix_at(13);
}

//@ harness: c03_tags_prefix_14
//@ tier: thorough
//@ timeout: 2400
//@ mem: 10
//@ covers: none
//@ unwindset: memcmp.0=12; burn_string=12; eat_whitespace=6; json_unescape=8; memchr=12; walk_tags=6
//@ encodes: Tags::from_json, read_tags_array, count_tags, burn_tag, burn_string, read_tag, json_unescape
//@ bounds: the valid text `[ ["a","b\\n"] , [] ]` (20 bytes) cut after 14 bytes, arbitrary prior output buffer: no panic, consumed <= length, accessors total
//@ outside: lengths that are not an instance of this family; arbitrary input bytes at this level (decided on the kernels; thorough: c03_tags_arb2 / c03_filter_arb3)
#[kani::proof]
#[kani::unwind(8)]
#[kani::stub(core::panic::Location::caller, stub_caller)]
fn c03_tags_prefix_14() {
    tags_prefix_at(14);
}

//@ harness: c03_tags_prefix_15
//@ tier: seeded
//@ group: tags_prefix
//@ timeout: 900
//@ mem: 10
//@ covers: none
//@ unwindset: memcmp.0=12; burn_string=12; eat_whitespace=6; json_unescape=8; memchr=12; walk_tags=6
//@ encodes: Tags::from_json, read_tags_array, count_tags, burn_tag, burn_string, read_tag, json_unescape
//@ bounds: the valid text `[ ["a","b\\n"] , [] ]` (20 bytes) cut after 15 bytes, arbitrary prior output buffer: no panic, consumed <= length, accessors total
//@ outside: lengths that are not an instance of this family; arbitrary input bytes at this level (decided on the kernels; thorough: c03_tags_arb2 / c03_filter_arb3)
#[kani::proof]
#[kani::unwind(8)]
#[kani::stub(core::panic::Location::caller, stub_caller)]
fn c03_tags_prefix_15() {
    tags_prefix_at(15);
}

//@ harness: c03_tags_prefix_16
//@ tier: seeded
//@ group: tags_prefix
//@ timeout: 900
//@ mem: 10
//@ covers: none
//@ unwindset: memcmp.0=12; burn_string=12; eat_whitespace=6; json_unescape=8; memchr=12; walk_tags=6
//@ encodes: Tags::from_json, read_tags_array, count_tags, burn_tag, burn_string, read_tag, json_unescape
//@ bounds: the valid text `[ ["a","b\\n"] , [] ]` (20 bytes) cut after 16 bytes, arbitrary prior output buffer: no panic, consumed <= length, accessors total
//@ outside: lengths that are not an instance of this family; arbitrary input bytes at this level (decided on the kernels; thorough: c03_tags_arb2 / c03_filter_arb3)
#[kani::proof]
#[kani::unwind(8)]
#[kani::stub(core::panic::Location::caller, stub_caller)]
fn c03_tags_prefix_16() {
    tags_prefix_at(16);
}

//@ harness: c03_tags_prefix_17
//@ tier: seeded
//@ group: tags_prefix
//@ timeout: 900
//@ mem: 10
//@ covers: none
//@ unwindset: memcmp.0=12; burn_string=12; eat_whitespace=6; json_unescape=8; memchr=12; walk_tags=6
//@ encodes: Tags::from_json, read_tags_array, count_tags, burn_tag, burn_string, read_tag, json_unescape
//@ bounds: the valid text `[ ["a","b\\n"] , [] ]` (20 bytes) cut after 17 bytes, arbitrary prior output buffer: no panic, consumed <= length, accessors total
//@ outside: lengths that are not an instance of this family; arbitrary input bytes at this level (decided on the kernels; thorough: c03_tags_arb2 / c03_filter_arb3)
#[kani::proof]
#[kani::unwind(8)]
#[kani::stub(core::panic::Location::caller, stub_caller)]
fn c03_tags_prefix_17() {
    tags_prefix_at(17);
}

//@ harness: c03_tags_prefix_18
//@ tier: thorough
//@ group: tags_prefix
//@ timeout: 2400
//@ mem: 10
//@ covers: none
//@ unwindset: memcmp.0=12; burn_string=12; eat_whitespace=6; json_unescape=8; memchr=12; walk_tags=6
//@ encodes: Tags::from_json, read_tags_array, count_tags, burn_tag, burn_string, read_tag, json_unescape
//@ bounds: the valid text `[ ["a","b\\n"] , [] ]` (20 bytes) cut after 18 bytes, arbitrary prior output buffer: no panic, consumed <= length, accessors total
//@ outside: lengths that are not an instance of this family; arbitrary input bytes at this level (decided on the kernels; thorough: c03_tags_arb2 / c03_filter_arb3)
#[kani::proof]
#[kani::unwind(8)]
#[kani::stub(core::panic::Location::caller, stub_caller)]
fn c03_tags_prefix_18() {
    tags_prefix_at(18);
}

//@ harness: c03_tags_prefix_19
//@ tier: seeded
//@ group: tags_prefix
//@ timeout: 900
//@ mem: 10
//@ covers: none
//@ unwindset: memcmp.0=12; burn_string=12; eat_whitespace=6; json_unescape=8; memchr=12; walk_tags=6
//@ encodes: Tags::from_json, read_tags_array, count_tags, burn_tag, burn_string, read_tag, json_unescape
//@ bounds: the valid text `[ ["a","b\\n"] , [] ]` (20 bytes) cut after 19 bytes, arbitrary prior output buffer: no panic, consumed <= length, accessors total
//@ outside: lengths that are not an instance of this family; arbitrary input bytes at this level (decided on the kernels; thorough: c03_tags_arb2 / c03_filter_arb3)
#[kani::proof]
#[kani::unwind(8)]
#[kani::stub(core::panic::Location::caller, stub_caller)]
fn c03_tags_prefix_19() {
    tags_prefix_at(19);
}

//@ harness: c03_tags_prefix_20
//@ tier: quick
//@ timeout: 900
//@ mem: 10
//@ covers: none
//@ unwindset: memcmp.0=12; burn_string=12; eat_whitespace=6; json_unescape=8; memchr=12; walk_tags=6
//@ encodes: Tags::from_json, read_tags_array, count_tags, burn_tag, burn_string, read_tag, json_unescape
//@ bounds: the valid text `[ ["a","b\\n"] , [] ]` (20 bytes) cut after 20 bytes, arbitrary prior output buffer: no panic, consumed <= length, accessors total
//@ outside: lengths that are not an instance of this family; arbitrary input bytes at this level (decided on the kernels; thorough: c03_tags_arb2 / c03_filter_arb3)
#[kani::proof]
#[kani::unwind(8)]
#[kani::stub(core::panic::Location::caller, stub_caller)]
fn c03_tags_prefix_20() {
    tags_prefix_at(20);
}

//@ harness: c03_tags_outlen_0
//@ tier: seeded
//@ group: tags_outlen
//@ timeout: 900
//@ mem: 10
//@ covers: none
//@ unwindset: memcmp.0=12; burn_string=12; eat_whitespace=6; json_unescape=8; memchr=12; walk_tags=6
//@ encodes: Tags::from_json, read_tags_array, read_tag, json_unescape, put
//@ bounds: the valid text `[["e","ab"],["p"],[]]` parsed into an output buffer of exactly 0 bytes (needs 26), arbitrary prior contents: no panic, error below the needed size, success at and above it
//@ outside: lengths that are not an instance of this family; arbitrary input bytes at this level (decided on the kernels; thorough: c03_tags_arb2 / c03_filter_arb3)
#[kani::proof]
#[kani::unwind(8)]
#[kani::stub(core::panic::Location::caller, stub_caller)]
fn c03_tags_outlen_0() {
    tags_outlen_at(0);
}

//@ harness: c03_tags_outlen_1
//@ tier: seeded
//@ group: tags_outlen
//@ timeout: 900
//@ mem: 10
//@ covers: none
//@ unwindset: memcmp.0=12; burn_string=12; eat_whitespace=6; json_unescape=8; memchr=12; walk_tags=6
//@ encodes: Tags::from_json, read_tags_array, read_tag, json_unescape, put
//@ bounds: the valid text `[["e","ab"],["p"],[]]` parsed into an output buffer of exactly 1 bytes (needs 26), arbitrary prior contents: no panic, error below the needed size, success at and above it
//@ outside: lengths that are not an instance of this family; arbitrary input bytes at this level (decided on the kernels; thorough: c03_tags_arb2 / c03_filter_arb3)
#[kani::proof]
#[kani::unwind(8)]
#[kani::stub(core::panic::Location::caller, stub_caller)]
fn c03_tags_outlen_1() {
    tags_outlen_at(1);
}

//@ harness: c03_tags_outlen_2
//@ tier: seeded
//@ group: tags_outlen
//@ timeout: 900
//@ mem: 10
//@ covers: none
//@ unwindset: memcmp.0=12; burn_string=12; eat_whitespace=6; json_unescape=8; memchr=12; walk_tags=6
//@ encodes: Tags::from_json, read_tags_array, read_tag, json_unescape, put
//@ bounds: the valid text `[["e","ab"],["p"],[]]` parsed into an output buffer of exactly 2 bytes (needs 26), arbitrary prior contents: no panic, error below the needed size, success at and above it
//@ outside: lengths that are not an instance of this family; arbitrary input bytes at this level (decided on the kernels; thorough: c03_tags_arb2 / c03_filter_arb3)
#[kani::proof]
#[kani::unwind(8)]
#[kani::stub(core::panic::Location::caller, stub_caller)]
fn c03_tags_outlen_2() {
    tags_outlen_at(2);
}

//@ harness: c03_tags_outlen_3
//@ tier: seeded
//@ group: tags_outlen
//@ timeout: 900
//@ mem: 10
//@ covers: none
//@ unwindset: memcmp.0=12; burn_string=12; eat_whitespace=6; json_unescape=8; memchr=12; walk_tags=6
//@ encodes: Tags::from_json, read_tags_array, read_tag, json_unescape, put
//@ bounds: the valid text `[["e","ab"],["p"],[]]` parsed into an output buffer of exactly 3 bytes (needs 26), arbitrary prior contents: no panic, error below the needed size, success at and above it
//@ outside: lengths that are not an instance of this family; arbitrary input bytes at this level (decided on the kernels; thorough: c03_tags_arb2 / c03_filter_arb3)
#[kani::proof]
#[kani::unwind(8)]
#[kani::stub(core::panic::Location::caller, stub_caller)]
fn c03_tags_outlen_3() {
    tags_outlen_at(3);
}

//@ harness: c03_tags_outlen_4
//@ tier: seeded
//@ group: tags_outlen
//@ timeout: 900
//@ mem: 10
//@ covers: none
//@ unwindset: memcmp.0=12; burn_string=12; eat_whitespace=6; json_unescape=8; memchr=12; walk_tags=6
//@ encodes: Tags::from_json, read_tags_array, read_tag, json_unescape, put
//@ bounds: the valid text `[["e","ab"],["p"],[]]` parsed into an output buffer of exactly 4 bytes (needs 26), arbitrary prior contents: no panic, error below the needed size, success at and above it
//@ outside: lengths that are not an instance of this family; arbitrary input bytes at this level (decided on the kernels; thorough: c03_tags_arb2 / c03_filter_arb3)
#[kani::proof]
#[kani::unwind(8)]
#[kani::stub(core::panic::Location::caller, stub_caller)]
fn c03_tags_outlen_4() {
    tags_outlen_at(4);
}

//@ harness: c03_tags_outlen_5
//@ tier: seeded
//@ group: tags_outlen
//@ timeout: 900
//@ mem: 10
//@ covers: none
//@ unwindset: memcmp.0=12; burn_string=12; eat_whitespace=6; json_unescape=8; memchr=12; walk_tags=6
//@ encodes: Tags::from_json, read_tags_array, read_tag, json_unescape, put
//@ bounds: the valid text `[["e","ab"],["p"],[]]` parsed into an output buffer of exactly 5 bytes (needs 26), arbitrary prior contents: no panic, error below the needed size, success at and above it
//@ outside: lengths that are not an instance of this family; arbitrary input bytes at this level (decided on the kernels; thorough: c03_tags_arb2 / c03_filter_arb3)
#[kani::proof]
#[kani::unwind(8)]
#[kani::stub(core::panic::Location::caller, stub_caller)]
fn c03_tags_outlen_5() {
    tags_outlen_at(5);
}

//@ harness: c03_tags_outlen_6
//@ tier: quick
//@ timeout: 900
//@ mem: 10
//@ covers: none
//@ unwindset: memcmp.0=12; burn_string=12; eat_whitespace=6; json_unescape=8; memchr=12; walk_tags=6
//@ encodes: Tags::from_json, read_tags_array, read_tag, json_unescape, put
//@ bounds: the valid text `[["e","ab"],["p"],[]]` parsed into an output buffer of exactly 6 bytes (needs 26), arbitrary prior contents: no panic, error below the needed size, success at and above it
//@ outside: lengths that are not an instance of this family; arbitrary input bytes at this level (decided on the kernels; thorough: c03_tags_arb2 / c03_filter_arb3)
#[kani::proof]
#[kani::unwind(8)]
#[kani::stub(core::panic::Location::caller, stub_caller)]
fn c03_tags_outlen_6() {
    tags_outlen_at(6);
}

//@ harness: c03_tags_outlen_7
//@ tier: seeded
//@ group: tags_outlen
//@ timeout: 900
//@ mem: 10
//@ covers: none
//@ unwindset: memcmp.0=12; burn_string=12; eat_whitespace=6; json_unescape=8; memchr=12; walk_tags=6
//@ encodes: Tags::from_json, read_tags_array, read_tag, json_unescape, put
//@ bounds: the valid text `[["e","ab"],["p"],[]]` parsed into an output buffer of exactly 7 bytes (needs 26), arbitrary prior contents: no panic, error below the needed size, success at and above it
//@ outside: lengths that are not an instance of this family; arbitrary input bytes at this level (decided on the kernels; thorough: c03_tags_arb2 / c03_filter_arb3)
#[kani::proof]
#[kani::unwind(8)]
#[kani::stub(core::panic::Location::caller, stub_caller)]
fn c03_tags_outlen_7() {
    tags_outlen_at(7);
}

//@ harness: c03_tags_outlen_8
//@ tier: seeded
//@ group: tags_outlen
//@ timeout: 900
//@ mem: 10
//@ covers: none
//@ unwindset: memcmp.0=12; burn_string=12; eat_whitespace=6; json_unescape=8; memchr=12; walk_tags=6
//@ encodes: Tags::from_json, read_tags_array, read_tag, json_unescape, put
//@ bounds: the valid text `[["e","ab"],["p"],[]]` parsed into an output buffer of exactly 8 bytes (needs 26), arbitrary prior contents: no panic, error below the needed size, success at and above it
//@ outside: lengths that are not an instance of this family; arbitrary input bytes at this level (decided on the kernels; thorough: c03_tags_arb2 / c03_filter_arb3)
#[kani::proof]
#[kani::unwind(8)]
#[kani::stub(core::panic::Location::caller, stub_caller)]
fn c03_tags_outlen_8() {
    tags_outlen_at(8);
}

//@ harness: c03_tags_outlen_9
//@ tier: seeded
//@ group: tags_outlen
//@ timeout: 900
//@ mem: 10
//@ covers: none
//@ unwindset: memcmp.0=12; burn_string=12; eat_whitespace=6; json_unescape=8; memchr=12; walk_tags=6
//@ encodes: Tags::from_json, read_tags_array, read_tag, json_unescape, put
//@ bounds: the valid text `[["e","ab"],["p"],[]]` parsed into an output buffer of exactly 9 bytes (needs 26), arbitrary prior contents: no panic, error below the needed size, success at and above it
//@ outside: lengths that are not an instance of this family; arbitrary input bytes at this level (decided on the kernels; thorough: c03_tags_arb2 / c03_filter_arb3)
#[kani::proof]
#[kani::unwind(8)]
#[kani::stub(core::panic::Location::caller, stub_caller)]
fn c03_tags_outlen_9() {
    tags_outlen_at(9);
}

//@ harness: c03_tags_outlen_10
//@ tier: seeded
//@ group: tags_outlen
//@ timeout: 900
//@ mem: 10
//@ covers: none
//@ unwindset: memcmp.0=12; burn_string=12; eat_whitespace=6; json_unescape=8; memchr=12; walk_tags=6
//@ encodes: Tags::from_json, read_tags_array, read_tag, json_unescape, put
//@ bounds: the valid text `[["e","ab"],["p"],[]]` parsed into an output buffer of exactly 10 bytes (needs 26), arbitrary prior contents: no panic, error below the needed size, success at and above it
//@ outside: lengths that are not an instance of this family; arbitrary input bytes at this level (decided on the kernels; thorough: c03_tags_arb2 / c03_filter_arb3)
#[kani::proof]
#[kani::unwind(8)]
#[kani::stub(core::panic::Location::caller, stub_caller)]
fn c03_tags_outlen_10() {
    tags_outlen_at(10);
}

//@ harness: c03_tags_outlen_11
//@ tier: seeded
//@ group: tags_outlen
//@ timeout: 900
//@ mem: 10
//@ covers: none
//@ unwindset: memcmp.0=12; burn_string=12; eat_whitespace=6; json_unescape=8; memchr=12; walk_tags=6
//@ encodes: Tags::from_json, read_tags_array, read_tag, json_unescape, put
//@ bounds: the valid text `[["e","ab"],["p"],[]]` parsed into an output buffer of exactly 11 bytes (needs 26), arbitrary prior contents: no panic, error below the needed size, success at and above it
//@ outside: lengths that are not an instance of this family; arbitrary input bytes at this level (decided on the kernels; thorough: c03_tags_arb2 / c03_filter_arb3)
#[kani::proof]
#[kani::unwind(8)]
#[kani::stub(core::panic::Location::caller, stub_caller)]
fn c03_tags_outlen_11() {
    tags_outlen_at(11);
}

//@ harness: c03_tags_outlen_20
//@ tier: seeded
//@ group: tags_outlen
//@ timeout: 900
//@ mem: 10
//@ covers: none
//@ unwindset: memcmp.0=12; burn_string=12; eat_whitespace=6; json_unescape=8; memchr=12; walk_tags=6
//@ encodes: Tags::from_json, read_tags_array, read_tag, json_unescape, put
//@ bounds: the valid text `[["e","ab"],["p"],[]]` parsed into an output buffer of exactly 20 bytes (needs 26), arbitrary prior contents: no panic, error below the needed size, success at and above it
//@ outside: lengths that are not an instance of this family; arbitrary input bytes at this level (decided on the kernels; thorough: c03_tags_arb2 / c03_filter_arb3)
#[kani::proof]
#[kani::unwind(8)]
#[kani::stub(core::panic::Location::caller, stub_caller)]
fn c03_tags_outlen_20() {
    tags_outlen_at(20);
}

//@ harness: c03_tags_outlen_21
//@ tier: seeded
//@ group: tags_outlen
//@ timeout: 900
//@ mem: 10
//@ covers: none
//@ unwindset: memcmp.0=12; burn_string=12; eat_whitespace=6; json_unescape=8; memchr=12; walk_tags=6
//@ encodes: Tags::from_json, read_tags_array, read_tag, json_unescape, put
//@ bounds: the valid text `[["e","ab"],["p"],[]]` parsed into an output buffer of exactly 21 bytes (needs 26), arbitrary prior contents: no panic, error below the needed size, success at and above it
//@ outside: lengths that are not an instance of this family; arbitrary input bytes at this level (decided on the kernels; thorough: c03_tags_arb2 / c03_filter_arb3)
#[kani::proof]
#[kani::unwind(8)]
#[kani::stub(core::panic::Location::caller, stub_caller)]
fn c03_tags_outlen_21() {
    tags_outlen_at(21);
}

//@ harness: c03_tags_outlen_22
//@ tier: seeded
//@ group: tags_outlen
//@ timeout: 900
//@ mem: 10
//@ covers: none
//@ unwindset: memcmp.0=12; burn_string=12; eat_whitespace=6; json_unescape=8; memchr=12; walk_tags=6
//@ encodes: Tags::from_json, read_tags_array, read_tag, json_unescape, put
//@ bounds: the valid text `[["e","ab"],["p"],[]]` parsed into an output buffer of exactly 22 bytes (needs 26), arbitrary prior contents: no panic, error below the needed size, success at and above it
//@ outside: lengths that are not an instance of this family; arbitrary input bytes at this level (decided on the kernels; thorough: c03_tags_arb2 / c03_filter_arb3)
#[kani::proof]
#[kani::unwind(8)]
#[kani::stub(core::panic::Location::caller, stub_caller)]
fn c03_tags_outlen_22() {
    tags_outlen_at(22);
}

//@ harness: c03_tags_outlen_23
//@ tier: seeded
//@ group: tags_outlen
//@ timeout: 900
//@ mem: 10
//@ covers: none
//@ unwindset: memcmp.0=12; burn_string=12; eat_whitespace=6; json_unescape=8; memchr=12; walk_tags=6
//@ encodes: Tags::from_json, read_tags_array, read_tag, json_unescape, put
//@ bounds: the valid text `[["e","ab"],["p"],[]]` parsed into an output buffer of exactly 23 bytes (needs 26), arbitrary prior contents: no panic, error below the needed size, success at and above it
//@ outside: lengths that are not an instance of this family; arbitrary input bytes at this level (decided on the kernels; thorough: c03_tags_arb2 / c03_filter_arb3)
#[kani::proof]
#[kani::unwind(8)]
#[kani::stub(core::panic::Location::caller, stub_caller)]
fn c03_tags_outlen_23() {
    tags_outlen_at(23);
}

//@ harness: c03_tags_outlen_24
//@ tier: seeded
//@ group: tags_outlen
//@ timeout: 900
//@ mem: 10
//@ covers: none
//@ unwindset: memcmp.0=12; burn_string=12; eat_whitespace=6; json_unescape=8; memchr=12; walk_tags=6
//@ encodes: Tags::from_json, read_tags_array, read_tag, json_unescape, put
//@ bounds: the valid text `[["e","ab"],["p"],[]]` parsed into an output buffer of exactly 24 bytes (needs 26), arbitrary prior contents: no panic, error below the needed size, success at and above it
//@ outside: lengths that are not an instance of this family; arbitrary input bytes at this level (decided on the kernels; thorough: c03_tags_arb2 / c03_filter_arb3)
#[kani::proof]
#[kani::unwind(8)]
#[kani::stub(core::panic::Location::caller, stub_caller)]
fn c03_tags_outlen_24() {
    tags_outlen_at(24);
}

//@ harness: c03_tags_outlen_25
//@ tier: quick
//@ timeout: 900
//@ mem: 10
//@ covers: none
//@ unwindset: memcmp.0=12; burn_string=12; eat_whitespace=6; json_unescape=8; memchr=12; walk_tags=6
//@ encodes: Tags::from_json, read_tags_array, read_tag, json_unescape, put
//@ bounds: the valid text `[["e","ab"],["p"],[]]` parsed into an output buffer of exactly 25 bytes (needs 26), arbitrary prior contents: no panic, error below the needed size, success at and above it
//@ outside: lengths that are not an instance of this family; arbitrary input bytes at this level (decided on the kernels; thorough: c03_tags_arb2 / c03_filter_arb3)
#[kani::proof]
#[kani::unwind(8)]
#[kani::stub(core::panic::Location::caller, stub_caller)]
fn c03_tags_outlen_25() {
    tags_outlen_at(25);
}

//@ harness: c03_tags_outlen_26
//@ tier: quick
//@ timeout: 900
//@ mem: 10
//@ covers: none
//@ unwindset: memcmp.0=12; burn_string=12; eat_whitespace=6; json_unescape=8; memchr=12; walk_tags=6
//@ encodes: Tags::from_json, read_tags_array, read_tag, json_unescape, put
//@ bounds: the valid text `[["e","ab"],["p"],[]]` parsed into an output buffer of exactly 26 bytes (needs 26), arbitrary prior contents: no panic, error below the needed size, success at and above it
//@ outside: lengths that are not an instance of this family; arbitrary input bytes at this level (decided on the kernels; thorough: c03_tags_arb2 / c03_filter_arb3)
#[kani::proof]
#[kani::unwind(8)]
#[kani::stub(core::panic::Location::caller, stub_caller)]
fn c03_tags_outlen_26() {
    tags_outlen_at(26);
}

//@ harness: c03_tags_outlen_27
//@ tier: seeded
//@ group: tags_outlen
//@ timeout: 900
//@ mem: 10
//@ covers: none
//@ unwindset: memcmp.0=12; burn_string=12; eat_whitespace=6; json_unescape=8; memchr=12; walk_tags=6
//@ encodes: Tags::from_json, read_tags_array, read_tag, json_unescape, put
//@ bounds: the valid text `[["e","ab"],["p"],[]]` parsed into an output buffer of exactly 27 bytes (needs 26), arbitrary prior contents: no panic, error below the needed size, success at and above it
//@ outside: lengths that are not an instance of this family; arbitrary input bytes at this level (decided on the kernels; thorough: c03_tags_arb2 / c03_filter_arb3)
#[kani::proof]
#[kani::unwind(8)]
#[kani::stub(core::panic::Location::caller, stub_caller)]
fn c03_tags_outlen_27() {
    tags_outlen_at(27);
}

//@ harness: c03_tags_outlen_28
//@ tier: seeded
//@ group: tags_outlen
//@ timeout: 900
//@ mem: 10
//@ covers: none
//@ unwindset: memcmp.0=12; burn_string=12; eat_whitespace=6; json_unescape=8; memchr=12; walk_tags=6
//@ encodes: Tags::from_json, read_tags_array, read_tag, json_unescape, put
//@ bounds: the valid text `[["e","ab"],["p"],[]]` parsed into an output buffer of exactly 28 bytes (needs 26), arbitrary prior contents: no panic, error below the needed size, success at and above it
//@ outside: lengths that are not an instance of this family; arbitrary input bytes at this level (decided on the kernels; thorough: c03_tags_arb2 / c03_filter_arb3)
#[kani::proof]
#[kani::unwind(8)]
#[kani::stub(core::panic::Location::caller, stub_caller)]
fn c03_tags_outlen_28() {
    tags_outlen_at(28);
}

//@ harness: c03_tags_outlen_29
//@ tier: seeded
//@ group: tags_outlen
//@ timeout: 900
//@ mem: 10
//@ covers: none
//@ unwindset: memcmp.0=12; burn_string=12; eat_whitespace=6; json_unescape=8; memchr=12; walk_tags=6
//@ encodes: Tags::from_json, read_tags_array, read_tag, json_unescape, put
//@ bounds: the valid text `[["e","ab"],["p"],[]]` parsed into an output buffer of exactly 29 bytes (needs 26), arbitrary prior contents: no panic, error below the needed size, success at and above it
//@ outside: lengths that are not an instance of this family; arbitrary input bytes at this level (decided on the kernels; thorough: c03_tags_arb2 / c03_filter_arb3)
#[kani::proof]
#[kani::unwind(8)]
#[kani::stub(core::panic::Location::caller, stub_caller)]
fn c03_tags_outlen_29() {
    tags_outlen_at(29);
}

// ------------------------------------------------------------- filter ------

fn walk_filter(f: &Filter) {
    let _ = f.num_ids();
    let _ = f.ids().next();
    let _ = f.authors().next();
    let _ = f.kinds().next();
    let _ = f.limit();
    let _ = f.since();
    let _ = f.until();
    if let Ok(t) = f.tags() {
        walk_tags(t);
    }
}

fn filter_arb<const N: usize>() {
    let buf: [u8; N] = kani::any();
    let n: usize = kani::any();
    kani::assume(n <= N);
    let mut out = [0u8; 48];
    let r = Filter::from_json(&buf[..n], &mut out);
    match r {
        Ok((consumed, written, f)) => {
            kani::cover!(consumed == 2);
            assert!(consumed <= n);
            assert!(written <= 48 && written == f.len());
            walk_filter(f);
        }
        Err(e) => core::mem::forget(e),
    }
}

//@ harness: c03_filter_arb3
//@ tier: thorough
//@ timeout: 1500
//@ mem: 12
//@ encodes: Filter::from_json, parse_json_filter
//@ bounds: every input of length 0..=3 (arbitrary bytes), 48-byte output: no panic, consumed <= length
#[kani::proof]
#[kani::unwind(8)]
#[kani::stub(core::panic::Location::caller, stub_caller)]
fn c03_filter_arb3() {
    filter_arb::<3>();
}

/// the valid filter text cut after n bytes (pure truncation), arbitrary prior output buffer
fn filter_prefix_at(n: usize) {
    let mut out: [u8; 64] = kani::any();
    match Filter::from_json(&FILTER_F2[..n], &mut out) {
        Ok((consumed, _written, f)) => {
            assert!(consumed <= n);
            walk_filter(f);
        }
        Err(e) => core::mem::forget(e),
    }
}

/// the valid filter text parsed into an output buffer of exactly m bytes, arbitrary prior contents
fn filter_outlen_at(m: usize) {
    let need = 32 + 2 + (4 + 2 + 2 + 3 + 4); // header, one kind, tags: header+offset, count, "e", "ab"
    let mut out: [u8; 56] = kani::any();
    match Filter::from_json(FILTER_F2, &mut out[..m]) {
        Ok((consumed, written, f)) => {
            assert!(m >= need);
            assert!(consumed == FILTER_F2.len());
            assert!(written == need);
            walk_filter(f);
        }
        Err(e) => {
            assert!(m < need);
            core::mem::forget(e);
        }
    }
}

//@ harness: c03_filter_prefix_0
//@ tier: seeded
//@ group: filter_prefix
//@ timeout: 900
//@ mem: 10
//@ covers: none
//@ unwindset: memcmp.0=12; burn_string=12; eat_whitespace=6; json_unescape=8; memchr=12; walk_tags=6; read_u64=6; parse_json_filter=12
//@ encodes: Filter::from_json, parse_json_filter, burn_array, json_unescape, read_u64
//@ bounds: the valid text `{"kinds":[1],"#e":["ab"],"limit":3}` (35 bytes) cut after 0 bytes, arbitrary prior output buffer: no panic, consumed <= length
//@ outside: lengths that are not an instance of this family; arbitrary input bytes at this level (decided on the kernels; thorough: c03_tags_arb2 / c03_filter_arb3)
#[kani::proof]
#[kani::unwind(8)]
#[kani::stub(core::panic::Location::caller, stub_caller)]
fn c03_filter_prefix_0() {
    filter_prefix_at(0);
}

//@ harness: c03_filter_prefix_1
//@ tier: seeded
//@ group: filter_prefix
//@ timeout: 900
//@ mem: 10
//@ covers: none
//@ unwindset: memcmp.0=12; burn_string=12; eat_whitespace=6; json_unescape=8; memchr=12; walk_tags=6; read_u64=6; parse_json_filter=12
//@ encodes: Filter::from_json, parse_json_filter, burn_array, json_unescape, read_u64
//@ bounds: the valid text `{"kinds":[1],"#e":["ab"],"limit":3}` (35 bytes) cut after 1 bytes, arbitrary prior output buffer: no panic, consumed <= length
//@ outside: lengths that are not an instance of this family; arbitrary input bytes at this level (decided on the kernels; thorough: c03_tags_arb2 / c03_filter_arb3)
#[kani::proof]
#[kani::unwind(8)]
#[kani::stub(core::panic::Location::caller, stub_caller)]
fn c03_filter_prefix_1() {
    filter_prefix_at(1);
}

//@ harness: c03_filter_prefix_2
//@ tier: quick
//@ timeout: 900
//@ mem: 10
//@ covers: none
//@ unwindset: memcmp.0=12; burn_string=12; eat_whitespace=6; json_unescape=8; memchr=12; walk_tags=6; read_u64=6; parse_json_filter=12
//@ encodes: Filter::from_json, parse_json_filter, burn_array, json_unescape, read_u64
//@ bounds: the valid text `{"kinds":[1],"#e":["ab"],"limit":3}` (35 bytes) cut after 2 bytes, arbitrary prior output buffer: no panic, consumed <= length
//@ outside: lengths that are not an instance of this family; arbitrary input bytes at this level (decided on the kernels; thorough: c03_tags_arb2 / c03_filter_arb3)
#[kani::proof]
#[kani::unwind(8)]
#[kani::stub(core::panic::Location::caller, stub_caller)]
fn c03_filter_prefix_2() {
    filter_prefix_at(2);
}

//@ harness: c03_filter_prefix_3
//@ tier: seeded
//@ group: filter_prefix
//@ timeout: 900
//@ mem: 10
//@ covers: none
//@ unwindset: memcmp.0=12; burn_string=12; eat_whitespace=6; json_unescape=8; memchr=12; walk_tags=6; read_u64=6; parse_json_filter=12
//@ encodes: Filter::from_json, parse_json_filter, burn_array, json_unescape, read_u64
//@ bounds: the valid text `{"kinds":[1],"#e":["ab"],"limit":3}` (35 bytes) cut after 3 bytes, arbitrary prior output buffer: no panic, consumed <= length
//@ outside: lengths that are not an instance of this family; arbitrary input bytes at this level (decided on the kernels; thorough: c03_tags_arb2 / c03_filter_arb3)
#[kani::proof]
#[kani::unwind(8)]
#[kani::stub(core::panic::Location::caller, stub_caller)]
fn c03_filter_prefix_3() {
    filter_prefix_at(3);
}

//@ harness: c03_filter_prefix_4
//@ tier: seeded
//@ group: filter_prefix
//@ timeout: 900
//@ mem: 10
//@ covers: none
//@ unwindset: memcmp.0=12; burn_string=12; eat_whitespace=6; json_unescape=8; memchr=12; walk_tags=6; read_u64=6; parse_json_filter=12
//@ encodes: Filter::from_json, parse_json_filter, burn_array, json_unescape, read_u64
//@ bounds: the valid text `{"kinds":[1],"#e":["ab"],"limit":3}` (35 bytes) cut after 4 bytes, arbitrary prior output buffer: no panic, consumed <= length
//@ outside: lengths that are not an instance of this family; arbitrary input bytes at this level (decided on the kernels; thorough: c03_tags_arb2 / c03_filter_arb3)
#[kani::proof]
#[kani::unwind(8)]
#[kani::stub(core::panic::Location::caller, stub_caller)]
fn c03_filter_prefix_4() {
    filter_prefix_at(4);
}

//@ harness: c03_filter_prefix_5
//@ tier: seeded
//@ group: filter_prefix
//@ timeout: 900
//@ mem: 10
//@ covers: none
//@ unwindset: memcmp.0=12; burn_string=12; eat_whitespace=6; json_unescape=8; memchr=12; walk_tags=6; read_u64=6; parse_json_filter=12
//@ encodes: Filter::from_json, parse_json_filter, burn_array, json_unescape, read_u64
//@ bounds: the valid text `{"kinds":[1],"#e":["ab"],"limit":3}` (35 bytes) cut after 5 bytes, arbitrary prior output buffer: no panic, consumed <= length
//@ outside: lengths that are not an instance of this family; arbitrary input bytes at this level (decided on the kernels; thorough: c03_tags_arb2 / c03_filter_arb3)
#[kani::proof]
#[kani::unwind(8)]
#[kani::stub(core::panic::Location::caller, stub_caller)]
fn c03_filter_prefix_5() {
    filter_prefix_at(5);
}

//@ harness: c03_filter_prefix_6
//@ tier: seeded
//@ group: filter_prefix
//@ timeout: 900
//@ mem: 10
//@ covers: none
//@ unwindset: memcmp.0=12; burn_string=12; eat_whitespace=6; json_unescape=8; memchr=12; walk_tags=6; read_u64=6; parse_json_filter=12
//@ encodes: Filter::from_json, parse_json_filter, burn_array, json_unescape, read_u64
//@ bounds: the valid text `{"kinds":[1],"#e":["ab"],"limit":3}` (35 bytes) cut after 6 bytes, arbitrary prior output buffer: no panic, consumed <= length
//@ outside: lengths that are not an instance of this family; arbitrary input bytes at this level (decided on the kernels; thorough: c03_tags_arb2 / c03_filter_arb3)
#[kani::proof]
#[kani::unwind(8)]
#[kani::stub(core::panic::Location::caller, stub_caller)]
fn c03_filter_prefix_6() {
    filter_prefix_at(6);
}

//@ harness: c03_filter_prefix_7
//@ tier: seeded
//@ group: filter_prefix
//@ timeout: 900
//@ mem: 10
//@ covers: none
//@ unwindset: memcmp.0=12; burn_string=12; eat_whitespace=6; json_unescape=8; memchr=12; walk_tags=6; read_u64=6; parse_json_filter=12
//@ encodes: Filter::from_json, parse_json_filter, burn_array, json_unescape, read_u64
//@ bounds: the valid text `{"kinds":[1],"#e":["ab"],"limit":3}` (35 bytes) cut after 7 bytes, arbitrary prior output buffer: no panic, consumed <= length
//@ outside: lengths that are not an instance of this family; arbitrary input bytes at this level (decided on the kernels; thorough: c03_tags_arb2 / c03_filter_arb3)
#[kani::proof]
#[kani::unwind(8)]
#[kani::stub(core::panic::Location::caller, stub_caller)]
fn c03_filter_prefix_7() {
    filter_prefix_at(7);
}

//@ harness: c03_filter_prefix_8
//@ tier: seeded
//@ group: filter_prefix
//@ timeout: 900
//@ mem: 10
//@ covers: none
//@ unwindset: memcmp.0=12; burn_string=12; eat_whitespace=6; json_unescape=8; memchr=12; walk_tags=6; read_u64=6; parse_json_filter=12
//@ encodes: Filter::from_json, parse_json_filter, burn_array, json_unescape, read_u64
//@ bounds: the valid text `{"kinds":[1],"#e":["ab"],"limit":3}` (35 bytes) cut after 8 bytes, arbitrary prior output buffer: no panic, consumed <= length
//@ outside: lengths that are not an instance of this family; arbitrary input bytes at this level (decided on the kernels; thorough: c03_tags_arb2 / c03_filter_arb3)
#[kani::proof]
#[kani::unwind(8)]
#[kani::stub(core::panic::Location::caller, stub_caller)]
fn c03_filter_prefix_8() {
    filter_prefix_at(8);
}

//@ harness: c03_filter_prefix_9
//@ tier: seeded
//@ group: filter_prefix
//@ timeout: 900
//@ mem: 10
//@ covers: none
//@ unwindset: memcmp.0=12; burn_string=12; eat_whitespace=6; json_unescape=8; memchr=12; walk_tags=6; read_u64=6; parse_json_filter=12
//@ encodes: Filter::from_json, parse_json_filter, burn_array, json_unescape, read_u64
//@ bounds: the valid text `{"kinds":[1],"#e":["ab"],"limit":3}` (35 bytes) cut after 9 bytes, arbitrary prior output buffer: no panic, consumed <= length
//@ outside: lengths that are not an instance of this family; arbitrary input bytes at this level (decided on the kernels; thorough: c03_tags_arb2 / c03_filter_arb3)
#[kani::proof]
#[kani::unwind(8)]
#[kani::stub(core::panic::Location::caller, stub_caller)]
fn c03_filter_prefix_9() {
    filter_prefix_at(9);
}

//@ harness: c03_filter_prefix_10
//@ tier: seeded
//@ group: filter_prefix
//@ timeout: 900
//@ mem: 10
//@ covers: none
//@ unwindset: memcmp.0=12; burn_string=12; eat_whitespace=6; json_unescape=8; memchr=12; walk_tags=6; read_u64=6; parse_json_filter=12
//@ encodes: Filter::from_json, parse_json_filter, burn_array, json_unescape, read_u64
//@ bounds: the valid text `{"kinds":[1],"#e":["ab"],"limit":3}` (35 bytes) cut after 10 bytes, arbitrary prior output buffer: no panic, consumed <= length
//@ outside: lengths that are not an instance of this family; arbitrary input bytes at this level (decided on the kernels; thorough: c03_tags_arb2 / c03_filter_arb3)
#[kani::proof]
#[kani::unwind(8)]
#[kani::stub(core::panic::Location::caller, stub_caller)]
fn c03_filter_prefix_10() {
    filter_prefix_at(10);
}

//@ harness: c03_filter_prefix_11
//@ tier: seeded
//@ group: filter_prefix
//@ timeout: 900
//@ mem: 10
//@ covers: none
//@ unwindset: memcmp.0=12; burn_string=12; eat_whitespace=6; json_unescape=8; memchr=12; walk_tags=6; read_u64=6; parse_json_filter=12
//@ encodes: Filter::from_json, parse_json_filter, burn_array, json_unescape, read_u64
//@ bounds: the valid text `{"kinds":[1],"#e":["ab"],"limit":3}` (35 bytes) cut after 11 bytes, arbitrary prior output buffer: no panic, consumed <= length
//@ outside: lengths that are not an instance of this family; arbitrary input bytes at this level (decided on the kernels; thorough: c03_tags_arb2 / c03_filter_arb3)
#[kani::proof]
#[kani::unwind(8)]
#[kani::stub(core::panic::Location::caller, stub_caller)]
fn c03_filter_prefix_11() {
    filter_prefix_at(11);
}

//@ harness: c03_filter_prefix_12
//@ tier: seeded
//@ group: filter_prefix
//@ timeout: 900
//@ mem: 10
//@ covers: none
//@ unwindset: memcmp.0=12; burn_string=12; eat_whitespace=6; json_unescape=8; memchr=12; walk_tags=6; read_u64=6; parse_json_filter=12
//@ encodes: Filter::from_json, parse_json_filter, burn_array, json_unescape, read_u64
//@ bounds: the valid text `{"kinds":[1],"#e":["ab"],"limit":3}` (35 bytes) cut after 12 bytes, arbitrary prior output buffer: no panic, consumed <= length
//@ outside: lengths that are not an instance of this family; arbitrary input bytes at this level (decided on the kernels; thorough: c03_tags_arb2 / c03_filter_arb3)
#[kani::proof]
#[kani::unwind(8)]
#[kani::stub(core::panic::Location::caller, stub_caller)]
fn c03_filter_prefix_12() {
    filter_prefix_at(12);
}

//@ harness: c03_filter_prefix_13
//@ tier: seeded
//@ timeout: 900
//@ mem: 10
//@ covers: none
//@ unwindset: memcmp.0=12; burn_string=12; eat_whitespace=6; json_unescape=8; memchr=12; walk_tags=6; read_u64=6; parse_json_filter=12
//@ encodes: Filter::from_json, parse_json_filter, burn_array, json_unescape, read_u64
//@ bounds: the valid text `{"kinds":[1],"#e":["ab"],"limit":3}` (35 bytes) cut after 13 bytes, arbitrary prior output buffer: no panic, consumed <= length
//@ outside: lengths that are not an instance of this family; arbitrary input bytes at this level (decided on the kernels; thorough: c03_tags_arb2 / c03_filter_arb3)
#[kani::proof]
#[kani::unwind(8)]
#[kani::stub(core::panic::Location::caller, stub_caller)]
fn c03_filter_prefix_13() {
    filter_prefix_at(13);
}

//@ harness: c03_filter_prefix_14
//@ tier: seeded
//@ group: filter_prefix
//@ timeout: 900
//@ mem: 10
//@ covers: none
//@ unwindset: memcmp.0=12; burn_string=12; eat_whitespace=6; json_unescape=8; memchr=12; walk_tags=6; read_u64=6; parse_json_filter=12
//@ encodes: Filter::from_json, parse_json_filter, burn_array, json_unescape, read_u64
//@ bounds: the valid text `{"kinds":[1],"#e":["ab"],"limit":3}` (35 bytes) cut after 14 bytes, arbitrary prior output buffer: no panic, consumed <= length
//@ outside: lengths that are not an instance of this family; arbitrary input bytes at this level (decided on the kernels; thorough: c03_tags_arb2 / c03_filter_arb3)
#[kani::proof]
#[kani::unwind(8)]
#[kani::stub(core::panic::Location::caller, stub_caller)]
fn c03_filter_prefix_14() {
    filter_prefix_at(14);
}

//@ harness: c03_filter_prefix_15
//@ tier: seeded
//@ group: filter_prefix
//@ timeout: 900
//@ mem: 10
//@ covers: none
//@ unwindset: memcmp.0=12; burn_string=12; eat_whitespace=6; json_unescape=8; memchr=12; walk_tags=6; read_u64=6; parse_json_filter=12
//@ encodes: Filter::from_json, parse_json_filter, burn_array, json_unescape, read_u64
//@ bounds: the valid text `{"kinds":[1],"#e":["ab"],"limit":3}` (35 bytes) cut after 15 bytes, arbitrary prior output buffer: no panic, consumed <= length
//@ outside: lengths that are not an instance of this family; arbitrary input bytes at this level (decided on the kernels; thorough: c03_tags_arb2 / c03_filter_arb3)
#[kani::proof]
#[kani::unwind(8)]
#[kani::stub(core::panic::Location::caller, stub_caller)]
fn c03_filter_prefix_15() {
    filter_prefix_at(15);
}

//@ harness: c03_filter_prefix_16
//@ tier: seeded
//@ group: filter_prefix
//@ timeout: 900
//@ mem: 10
//@ covers: none
//@ unwindset: memcmp.0=12; burn_string=12; eat_whitespace=6; json_unescape=8; memchr=12; walk_tags=6; read_u64=6; parse_json_filter=12
//@ encodes: Filter::from_json, parse_json_filter, burn_array, json_unescape, read_u64
//@ bounds: the valid text `{"kinds":[1],"#e":["ab"],"limit":3}` (35 bytes) cut after 16 bytes, arbitrary prior output buffer: no panic, consumed <= length
//@ outside: lengths that are not an instance of this family; arbitrary input bytes at this level (decided on the kernels; thorough: c03_tags_arb2 / c03_filter_arb3)
#[kani::proof]
#[kani::unwind(8)]
#[kani::stub(core::panic::Location::caller, stub_caller)]
fn c03_filter_prefix_16() {
    filter_prefix_at(16);
}

//@ harness: c03_filter_prefix_17
//@ tier: seeded
//@ group: filter_prefix
//@ timeout: 900
//@ mem: 10
//@ covers: none
//@ unwindset: memcmp.0=12; burn_string=12; eat_whitespace=6; json_unescape=8; memchr=12; walk_tags=6; read_u64=6; parse_json_filter=12
//@ encodes: Filter::from_json, parse_json_filter, burn_array, json_unescape, read_u64
//@ bounds: the valid text `{"kinds":[1],"#e":["ab"],"limit":3}` (35 bytes) cut after 17 bytes, arbitrary prior output buffer: no panic, consumed <= length
//@ outside: lengths that are not an instance of this family; arbitrary input bytes at this level (decided on the kernels; thorough: c03_tags_arb2 / c03_filter_arb3)
#[kani::proof]
#[kani::unwind(8)]
#[kani::stub(core::panic::Location::caller, stub_caller)]
fn c03_filter_prefix_17() {
    filter_prefix_at(17);
}

//@ harness: c03_filter_prefix_18
//@ tier: seeded
//@ group: filter_prefix
//@ timeout: 900
//@ mem: 10
//@ covers: none
//@ unwindset: memcmp.0=12; burn_string=12; eat_whitespace=6; json_unescape=8; memchr=12; walk_tags=6; read_u64=6; parse_json_filter=12
//@ encodes: Filter::from_json, parse_json_filter, burn_array, json_unescape, read_u64
//@ bounds: the valid text `{"kinds":[1],"#e":["ab"],"limit":3}` (35 bytes) cut after 18 bytes, arbitrary prior output buffer: no panic, consumed <= length
//@ outside: lengths that are not an instance of this family; arbitrary input bytes at this level (decided on the kernels; thorough: c03_tags_arb2 / c03_filter_arb3)
#[kani::proof]
#[kani::unwind(8)]
#[kani::stub(core::panic::Location::caller, stub_caller)]
fn c03_filter_prefix_18() {
    filter_prefix_at(18);
}

//@ harness: c03_filter_prefix_19
//@ tier: seeded
//@ group: filter_prefix
//@ timeout: 900
//@ mem: 10
//@ covers: none
//@ unwindset: memcmp.0=12; burn_string=12; eat_whitespace=6; json_unescape=8; memchr=12; walk_tags=6; read_u64=6; parse_json_filter=12
//@ encodes: Filter::from_json, parse_json_filter, burn_array, json_unescape, read_u64
//@ bounds: the valid text `{"kinds":[1],"#e":["ab"],"limit":3}` (35 bytes) cut after 19 bytes, arbitrary prior output buffer: no panic, consumed <= length
//@ outside: lengths that are not an instance of this family; arbitrary input bytes at this level (decided on the kernels; thorough: c03_tags_arb2 / c03_filter_arb3)
#[kani::proof]
#[kani::unwind(8)]
#[kani::stub(core::panic::Location::caller, stub_caller)]
fn c03_filter_prefix_19() {
    filter_prefix_at(19);
}

//@ harness: c03_filter_prefix_20
//@ tier: seeded
//@ group: filter_prefix
//@ timeout: 900
//@ mem: 10
//@ covers: none
//@ unwindset: memcmp.0=12; burn_string=12; eat_whitespace=6; json_unescape=8; memchr=12; walk_tags=6; read_u64=6; parse_json_filter=12
//@ encodes: Filter::from_json, parse_json_filter, burn_array, json_unescape, read_u64
//@ bounds: the valid text `{"kinds":[1],"#e":["ab"],"limit":3}` (35 bytes) cut after 20 bytes, arbitrary prior output buffer: no panic, consumed <= length
//@ outside: lengths that are not an instance of this family; arbitrary input bytes at this level (decided on the kernels; thorough: c03_tags_arb2 / c03_filter_arb3)
#[kani::proof]
#[kani::unwind(8)]
#[kani::stub(core::panic::Location::caller, stub_caller)]
fn c03_filter_prefix_20() {
    filter_prefix_at(20);
}

//@ harness: c03_filter_prefix_21
//@ tier: seeded
//@ group: filter_prefix
//@ timeout: 900
//@ mem: 10
//@ covers: none
//@ unwindset: memcmp.0=12; burn_string=12; eat_whitespace=6; json_unescape=8; memchr=12; walk_tags=6; read_u64=6; parse_json_filter=12
//@ encodes: Filter::from_json, parse_json_filter, burn_array, json_unescape, read_u64
//@ bounds: the valid text `{"kinds":[1],"#e":["ab"],"limit":3}` (35 bytes) cut after 21 bytes, arbitrary prior output buffer: no panic, consumed <= length
//@ outside: lengths that are not an instance of this family; arbitrary input bytes at this level (decided on the kernels; thorough: c03_tags_arb2 / c03_filter_arb3)
#[kani::proof]
#[kani::unwind(8)]
#[kani::stub(core::panic::Location::caller, stub_caller)]
fn c03_filter_prefix_21() {
    filter_prefix_at(21);
}

//@ harness: c03_filter_prefix_22
//@ tier: seeded
//@ group: filter_prefix
//@ timeout: 900
//@ mem: 10
//@ covers: none
//@ unwindset: memcmp.0=12; burn_string=12; eat_whitespace=6; json_unescape=8; memchr=12; walk_tags=6; read_u64=6; parse_json_filter=12
//@ encodes: Filter::from_json, parse_json_filter, burn_array, json_unescape, read_u64
//@ bounds: the valid text `{"kinds":[1],"#e":["ab"],"limit":3}` (35 bytes) cut after 22 bytes, arbitrary prior output buffer: no panic, consumed <= length
//@ outside: lengths that are not an instance of this family; arbitrary input bytes at this level (decided on the kernels; thorough: c03_tags_arb2 / c03_filter_arb3)
#[kani::proof]
#[kani::unwind(8)]
#[kani::stub(core::panic::Location::caller, stub_caller)]
fn c03_filter_prefix_22() {
    filter_prefix_at(22);
}

//@ harness: c03_filter_prefix_23
//@ tier: seeded
//@ group: filter_prefix
//@ timeout: 900
//@ mem: 10
//@ covers: none
//@ unwindset: memcmp.0=12; burn_string=12; eat_whitespace=6; json_unescape=8; memchr=12; walk_tags=6; read_u64=6; parse_json_filter=12
//@ encodes: Filter::from_json, parse_json_filter, burn_array, json_unescape, read_u64
//@ bounds: the valid text `{"kinds":[1],"#e":["ab"],"limit":3}` (35 bytes) cut after 23 bytes, arbitrary prior output buffer: no panic, consumed <= length
//@ outside: lengths that are not an instance of this family; arbitrary input bytes at this level (decided on the kernels; thorough: c03_tags_arb2 / c03_filter_arb3)
#[kani::proof]
#[kani::unwind(8)]
#[kani::stub(core::panic::Location::caller, stub_caller)]
fn c03_filter_prefix_23() {
    filter_prefix_at(23);
}

//@ harness: c03_filter_prefix_24
//@ tier: seeded
//@ timeout: 900
//@ mem: 10
//@ covers: none
//@ unwindset: memcmp.0=12; burn_string=12; eat_whitespace=6; json_unescape=8; memchr=12; walk_tags=6; read_u64=6; parse_json_filter=12
//@ encodes: Filter::from_json, parse_json_filter, burn_array, json_unescape, read_u64
//@ bounds: the valid text `{"kinds":[1],"#e":["ab"],"limit":3}` (35 bytes) cut after 24 bytes, arbitrary prior output buffer: no panic, consumed <= length
//@ outside: lengths that are not an instance of this family; arbitrary input bytes at this level (decided on the kernels; thorough: c03_tags_arb2 / c03_filter_arb3)
#[kani::proof]
#[kani::unwind(8)]
#[kani::stub(core::panic::Location::caller, stub_caller)]
fn c03_filter_prefix_24() {
    filter_prefix_at(24);
}

//@ harness: c03_filter_prefix_25
//@ tier: seeded
//@ group: filter_prefix
//@ timeout: 900
//@ mem: 10
//@ covers: none
//@ unwindset: memcmp.0=12; burn_string=12; eat_whitespace=6; json_unescape=8; memchr=12; walk_tags=6; read_u64=6; parse_json_filter=12
//@ encodes: Filter::from_json, parse_json_filter, burn_array, json_unescape, read_u64
//@ bounds: the valid text `{"kinds":[1],"#e":["ab"],"limit":3}` (35 bytes) cut after 25 bytes, arbitrary prior output buffer: no panic, consumed <= length
//@ outside: lengths that are not an instance of this family; arbitrary input bytes at this level (decided on the kernels; thorough: c03_tags_arb2 / c03_filter_arb3)
#[kani::proof]
#[kani::unwind(8)]
#[kani::stub(core::panic::Location::caller, stub_caller)]
fn c03_filter_prefix_25() {
    filter_prefix_at(25);
}

//@ harness: c03_filter_prefix_26
//@ tier: seeded
//@ group: filter_prefix
//@ timeout: 900
//@ mem: 10
//@ covers: none
//@ unwindset: memcmp.0=12; burn_string=12; eat_whitespace=6; json_unescape=8; memchr=12; walk_tags=6; read_u64=6; parse_json_filter=12
//@ encodes: Filter::from_json, parse_json_filter, burn_array, json_unescape, read_u64
//@ bounds: the valid text `{"kinds":[1],"#e":["ab"],"limit":3}` (35 bytes) cut after 26 bytes, arbitrary prior output buffer: no panic, consumed <= length
//@ outside: lengths that are not an instance of this family; arbitrary input bytes at this level (decided on the kernels; thorough: c03_tags_arb2 / c03_filter_arb3)
#[kani::proof]
#[kani::unwind(8)]
#[kani::stub(core::panic::Location::caller, stub_caller)]
fn c03_filter_prefix_26() {
    filter_prefix_at(26);
}

//@ harness: c03_filter_prefix_27
//@ tier: seeded
//@ group: filter_prefix
//@ timeout: 900
//@ mem: 10
//@ covers: none
//@ unwindset: memcmp.0=12; burn_string=12; eat_whitespace=6; json_unescape=8; memchr=12; walk_tags=6; read_u64=6; parse_json_filter=12
//@ encodes: Filter::from_json, parse_json_filter, burn_array, json_unescape, read_u64
//@ bounds: the valid text `{"kinds":[1],"#e":["ab"],"limit":3}` (35 bytes) cut after 27 bytes, arbitrary prior output buffer: no panic, consumed <= length
//@ outside: lengths that are not an instance of this family; arbitrary input bytes at this level (decided on the kernels; thorough: c03_tags_arb2 / c03_filter_arb3)
#[kani::proof]
#[kani::unwind(8)]
#[kani::stub(core::panic::Location::caller, stub_caller)]
fn c03_filter_prefix_27() {
    filter_prefix_at(27);
}

//@ harness: c03_filter_prefix_28
//@ tier: seeded
//@ group: filter_prefix
//@ timeout: 900
//@ mem: 10
//@ covers: none
//@ unwindset: memcmp.0=12; burn_string=12; eat_whitespace=6; json_unescape=8; memchr=12; walk_tags=6; read_u64=6; parse_json_filter=12
//@ encodes: Filter::from_json, parse_json_filter, burn_array, json_unescape, read_u64
//@ bounds: the valid text `{"kinds":[1],"#e":["ab"],"limit":3}` (35 bytes) cut after 28 bytes, arbitrary prior output buffer: no panic, consumed <= length
//@ outside: lengths that are not an instance of this family; arbitrary input bytes at this level (decided on the kernels; thorough: c03_tags_arb2 / c03_filter_arb3)
#[kani::proof]
#[kani::unwind(8)]
#[kani::stub(core::panic::Location::caller, stub_caller)]
fn c03_filter_prefix_28() {
    filter_prefix_at(28);
}

//@ harness: c03_filter_prefix_29
//@ tier: seeded
//@ group: filter_prefix
//@ timeout: 900
//@ mem: 10
//@ covers: none
//@ unwindset: memcmp.0=12; burn_string=12; eat_whitespace=6; json_unescape=8; memchr=12; walk_tags=6; read_u64=6; parse_json_filter=12
//@ encodes: Filter::from_json, parse_json_filter, burn_array, json_unescape, read_u64
//@ bounds: the valid text `{"kinds":[1],"#e":["ab"],"limit":3}` (35 bytes) cut after 29 bytes, arbitrary prior output buffer: no panic, consumed <= length
//@ outside: lengths that are not an instance of this family; arbitrary input bytes at this level (decided on the kernels; thorough: c03_tags_arb2 / c03_filter_arb3)
#[kani::proof]
#[kani::unwind(8)]
#[kani::stub(core::panic::Location::caller, stub_caller)]
fn c03_filter_prefix_29() {
    filter_prefix_at(29);
}

//@ harness: c03_filter_prefix_30
//@ tier: seeded
//@ group: filter_prefix
//@ timeout: 900
//@ mem: 10
//@ covers: none
//@ unwindset: memcmp.0=12; burn_string=12; eat_whitespace=6; json_unescape=8; memchr=12; walk_tags=6; read_u64=6; parse_json_filter=12
//@ encodes: Filter::from_json, parse_json_filter, burn_array, json_unescape, read_u64
//@ bounds: the valid text `{"kinds":[1],"#e":["ab"],"limit":3}` (35 bytes) cut after 30 bytes, arbitrary prior output buffer: no panic, consumed <= length
//@ outside: lengths that are not an instance of this family; arbitrary input bytes at this level (decided on the kernels; thorough: c03_tags_arb2 / c03_filter_arb3)
#[kani::proof]
#[kani::unwind(8)]
#[kani::stub(core::panic::Location::caller, stub_caller)]
fn c03_filter_prefix_30() {
    filter_prefix_at(30);
}

//@ harness: c03_filter_prefix_31
//@ tier: seeded
//@ group: filter_prefix
//@ timeout: 900
//@ mem: 10
//@ covers: none
//@ unwindset: memcmp.0=12; burn_string=12; eat_whitespace=6; json_unescape=8; memchr=12; walk_tags=6; read_u64=6; parse_json_filter=12
//@ encodes: Filter::from_json, parse_json_filter, burn_array, json_unescape, read_u64
//@ bounds: the valid text `{"kinds":[1],"#e":["ab"],"limit":3}` (35 bytes) cut after 31 bytes, arbitrary prior output buffer: no panic, consumed <= length
//@ outside: lengths that are not an instance of this family; arbitrary input bytes at this level (decided on the kernels; thorough: c03_tags_arb2 / c03_filter_arb3)
#[kani::proof]
#[kani::unwind(8)]
#[kani::stub(core::panic::Location::caller, stub_caller)]
fn c03_filter_prefix_31() {
    filter_prefix_at(31);
}

//@ harness: c03_filter_prefix_32
//@ tier: seeded
//@ group: filter_prefix
//@ timeout: 900
//@ mem: 10
//@ covers: none
//@ unwindset: memcmp.0=12; burn_string=12; eat_whitespace=6; json_unescape=8; memchr=12; walk_tags=6; read_u64=6; parse_json_filter=12
//@ encodes: Filter::from_json, parse_json_filter, burn_array, json_unescape, read_u64
//@ bounds: the valid text `{"kinds":[1],"#e":["ab"],"limit":3}` (35 bytes) cut after 32 bytes, arbitrary prior output buffer: no panic, consumed <= length
//@ outside: lengths that are not an instance of this family; arbitrary input bytes at this level (decided on the kernels; thorough: c03_tags_arb2 / c03_filter_arb3)
#[kani::proof]
#[kani::unwind(8)]
#[kani::stub(core::panic::Location::caller, stub_caller)]
fn c03_filter_prefix_32() {
    filter_prefix_at(32);
}

//@ harness: c03_filter_prefix_33
//@ tier: seeded
//@ group: filter_prefix
//@ timeout: 900
//@ mem: 10
//@ covers: none
//@ unwindset: memcmp.0=12; burn_string=12; eat_whitespace=6; json_unescape=8; memchr=12; walk_tags=6; read_u64=6; parse_json_filter=12
//@ encodes: Filter::from_json, parse_json_filter, burn_array, json_unescape, read_u64
//@ bounds: the valid text `{"kinds":[1],"#e":["ab"],"limit":3}` (35 bytes) cut after 33 bytes, arbitrary prior output buffer: no panic, consumed <= length
//@ outside: lengths that are not an instance of this family; arbitrary input bytes at this level (decided on the kernels; thorough: c03_tags_arb2 / c03_filter_arb3)
#[kani::proof]
#[kani::unwind(8)]
#[kani::stub(core::panic::Location::caller, stub_caller)]
fn c03_filter_prefix_33() {
    filter_prefix_at(33);
}

//@ harness: c03_filter_prefix_34
//@ tier: seeded
//@ group: filter_prefix
//@ timeout: 900
//@ mem: 10
//@ covers: none
//@ unwindset: memcmp.0=12; burn_string=12; eat_whitespace=6; json_unescape=8; memchr=12; walk_tags=6; read_u64=6; parse_json_filter=12
//@ encodes: Filter::from_json, parse_json_filter, burn_array, json_unescape, read_u64
//@ bounds: the valid text `{"kinds":[1],"#e":["ab"],"limit":3}` (35 bytes) cut after 34 bytes, arbitrary prior output buffer: no panic, consumed <= length
//@ outside: lengths that are not an instance of this family; arbitrary input bytes at this level (decided on the kernels; thorough: c03_tags_arb2 / c03_filter_arb3)
#[kani::proof]
#[kani::unwind(8)]
#[kani::stub(core::panic::Location::caller, stub_caller)]
fn c03_filter_prefix_34() {
    filter_prefix_at(34);
}

//@ harness: c03_filter_prefix_35
//@ tier: quick
//@ timeout: 900
//@ mem: 10
//@ covers: none
//@ unwindset: memcmp.0=12; burn_string=12; eat_whitespace=6; json_unescape=8; memchr=12; walk_tags=6; read_u64=6; parse_json_filter=12
//@ encodes: Filter::from_json, parse_json_filter, burn_array, json_unescape, read_u64
//@ bounds: the valid text `{"kinds":[1],"#e":["ab"],"limit":3}` (35 bytes) cut after 35 bytes, arbitrary prior output buffer: no panic, consumed <= length
//@ outside: lengths that are not an instance of this family; arbitrary input bytes at this level (decided on the kernels; thorough: c03_tags_arb2 / c03_filter_arb3)
#[kani::proof]
#[kani::unwind(8)]
#[kani::stub(core::panic::Location::caller, stub_caller)]
fn c03_filter_prefix_35() {
    filter_prefix_at(35);
}

//@ harness: c03_filter_outlen_0
//@ tier: seeded
//@ group: filter_outlen
//@ timeout: 900
//@ mem: 10
//@ covers: none
//@ unwindset: memcmp.0=12; burn_string=12; eat_whitespace=6; json_unescape=8; memchr=12; walk_tags=6; read_u64=6; parse_json_filter=12
//@ encodes: Filter::from_json, parse_json_filter, put
//@ bounds: the valid text `{"kinds":[1],"#e":["ab"],"limit":3}` parsed into an output buffer of exactly 0 bytes (needs 51), arbitrary prior contents: no panic, error below the needed size
//@ outside: lengths that are not an instance of this family; arbitrary input bytes at this level (decided on the kernels; thorough: c03_tags_arb2 / c03_filter_arb3)
#[kani::proof]
#[kani::unwind(8)]
#[kani::stub(core::panic::Location::caller, stub_caller)]
fn c03_filter_outlen_0() {
    filter_outlen_at(0);
}

//@ harness: c03_filter_outlen_16
//@ tier: seeded
//@ group: filter_outlen
//@ timeout: 900
//@ mem: 10
//@ covers: none
//@ unwindset: memcmp.0=12; burn_string=12; eat_whitespace=6; json_unescape=8; memchr=12; walk_tags=6; read_u64=6; parse_json_filter=12
//@ encodes: Filter::from_json, parse_json_filter, put
//@ bounds: the valid text `{"kinds":[1],"#e":["ab"],"limit":3}` parsed into an output buffer of exactly 16 bytes (needs 51), arbitrary prior contents: no panic, error below the needed size
//@ outside: lengths that are not an instance of this family; arbitrary input bytes at this level (decided on the kernels; thorough: c03_tags_arb2 / c03_filter_arb3)
#[kani::proof]
#[kani::unwind(8)]
#[kani::stub(core::panic::Location::caller, stub_caller)]
fn c03_filter_outlen_16() {
    filter_outlen_at(16);
}

//@ harness: c03_filter_outlen_31
//@ tier: quick
//@ timeout: 900
//@ mem: 10
//@ covers: none
//@ unwindset: memcmp.0=12; burn_string=12; eat_whitespace=6; json_unescape=8; memchr=12; walk_tags=6; read_u64=6; parse_json_filter=12
//@ encodes: Filter::from_json, parse_json_filter, put
//@ bounds: the valid text `{"kinds":[1],"#e":["ab"],"limit":3}` parsed into an output buffer of exactly 31 bytes (needs 51), arbitrary prior contents: no panic, error below the needed size
//@ outside: lengths that are not an instance of this family; arbitrary input bytes at this level (decided on the kernels; thorough: c03_tags_arb2 / c03_filter_arb3)
#[kani::proof]
#[kani::unwind(8)]
#[kani::stub(core::panic::Location::caller, stub_caller)]
fn c03_filter_outlen_31() {
    filter_outlen_at(31);
}

//@ harness: c03_filter_outlen_32
//@ tier: seeded
//@ group: filter_outlen
//@ timeout: 900
//@ mem: 10
//@ covers: none
//@ unwindset: memcmp.0=12; burn_string=12; eat_whitespace=6; json_unescape=8; memchr=12; walk_tags=6; read_u64=6; parse_json_filter=12
//@ encodes: Filter::from_json, parse_json_filter, put
//@ bounds: the valid text `{"kinds":[1],"#e":["ab"],"limit":3}` parsed into an output buffer of exactly 32 bytes (needs 51), arbitrary prior contents: no panic, error below the needed size
//@ outside: lengths that are not an instance of this family; arbitrary input bytes at this level (decided on the kernels; thorough: c03_tags_arb2 / c03_filter_arb3)
#[kani::proof]
#[kani::unwind(8)]
#[kani::stub(core::panic::Location::caller, stub_caller)]
fn c03_filter_outlen_32() {
    filter_outlen_at(32);
}

//@ harness: c03_filter_outlen_33
//@ tier: seeded
//@ group: filter_outlen
//@ timeout: 900
//@ mem: 10
//@ covers: none
//@ unwindset: memcmp.0=12; burn_string=12; eat_whitespace=6; json_unescape=8; memchr=12; walk_tags=6; read_u64=6; parse_json_filter=12
//@ encodes: Filter::from_json, parse_json_filter, put
//@ bounds: the valid text `{"kinds":[1],"#e":["ab"],"limit":3}` parsed into an output buffer of exactly 33 bytes (needs 51), arbitrary prior contents: no panic, error below the needed size
//@ outside: lengths that are not an instance of this family; arbitrary input bytes at this level (decided on the kernels; thorough: c03_tags_arb2 / c03_filter_arb3)
#[kani::proof]
#[kani::unwind(8)]
#[kani::stub(core::panic::Location::caller, stub_caller)]
fn c03_filter_outlen_33() {
    filter_outlen_at(33);
}

//@ harness: c03_filter_outlen_34
//@ tier: seeded
//@ group: filter_outlen
//@ timeout: 900
//@ mem: 10
//@ covers: none
//@ unwindset: memcmp.0=12; burn_string=12; eat_whitespace=6; json_unescape=8; memchr=12; walk_tags=6; read_u64=6; parse_json_filter=12
//@ encodes: Filter::from_json, parse_json_filter, put
//@ bounds: the valid text `{"kinds":[1],"#e":["ab"],"limit":3}` parsed into an output buffer of exactly 34 bytes (needs 51), arbitrary prior contents: no panic, error below the needed size
//@ outside: lengths that are not an instance of this family; arbitrary input bytes at this level (decided on the kernels; thorough: c03_tags_arb2 / c03_filter_arb3)
#[kani::proof]
#[kani::unwind(8)]
#[kani::stub(core::panic::Location::caller, stub_caller)]
fn c03_filter_outlen_34() {
    filter_outlen_at(34);
}

//@ harness: c03_filter_outlen_35
//@ tier: seeded
//@ group: filter_outlen
//@ timeout: 900
//@ mem: 10
//@ covers: none
//@ unwindset: memcmp.0=12; burn_string=12; eat_whitespace=6; json_unescape=8; memchr=12; walk_tags=6; read_u64=6; parse_json_filter=12
//@ encodes: Filter::from_json, parse_json_filter, put
//@ bounds: the valid text `{"kinds":[1],"#e":["ab"],"limit":3}` parsed into an output buffer of exactly 35 bytes (needs 51), arbitrary prior contents: no panic, error below the needed size
//@ outside: lengths that are not an instance of this family; arbitrary input bytes at this level (decided on the kernels; thorough: c03_tags_arb2 / c03_filter_arb3)
#[kani::proof]
#[kani::unwind(8)]
#[kani::stub(core::panic::Location::caller, stub_caller)]
fn c03_filter_outlen_35() {
    filter_outlen_at(35);
}

//@ harness: c03_filter_outlen_36
//@ tier: seeded
//@ group: filter_outlen
//@ timeout: 900
//@ mem: 10
//@ covers: none
//@ unwindset: memcmp.0=12; burn_string=12; eat_whitespace=6; json_unescape=8; memchr=12; walk_tags=6; read_u64=6; parse_json_filter=12
//@ encodes: Filter::from_json, parse_json_filter, put
//@ bounds: the valid text `{"kinds":[1],"#e":["ab"],"limit":3}` parsed into an output buffer of exactly 36 bytes (needs 51), arbitrary prior contents: no panic, error below the needed size
//@ outside: lengths that are not an instance of this family; arbitrary input bytes at this level (decided on the kernels; thorough: c03_tags_arb2 / c03_filter_arb3)
#[kani::proof]
#[kani::unwind(8)]
#[kani::stub(core::panic::Location::caller, stub_caller)]
fn c03_filter_outlen_36() {
    filter_outlen_at(36);
}

//@ harness: c03_filter_outlen_38
//@ tier: seeded
//@ group: filter_outlen
//@ timeout: 900
//@ mem: 10
//@ covers: none
//@ unwindset: memcmp.0=12; burn_string=12; eat_whitespace=6; json_unescape=8; memchr=12; walk_tags=6; read_u64=6; parse_json_filter=12
//@ encodes: Filter::from_json, parse_json_filter, put
//@ bounds: the valid text `{"kinds":[1],"#e":["ab"],"limit":3}` parsed into an output buffer of exactly 38 bytes (needs 51), arbitrary prior contents: no panic, error below the needed size
//@ outside: lengths that are not an instance of this family; arbitrary input bytes at this level (decided on the kernels; thorough: c03_tags_arb2 / c03_filter_arb3)
#[kani::proof]
#[kani::unwind(8)]
#[kani::stub(core::panic::Location::caller, stub_caller)]
fn c03_filter_outlen_38() {
    filter_outlen_at(38);
}

//@ harness: c03_filter_outlen_40
//@ tier: seeded
//@ group: filter_outlen
//@ timeout: 900
//@ mem: 10
//@ covers: none
//@ unwindset: memcmp.0=12; burn_string=12; eat_whitespace=6; json_unescape=8; memchr=12; walk_tags=6; read_u64=6; parse_json_filter=12
//@ encodes: Filter::from_json, parse_json_filter, put
//@ bounds: the valid text `{"kinds":[1],"#e":["ab"],"limit":3}` parsed into an output buffer of exactly 40 bytes (needs 51), arbitrary prior contents: no panic, error below the needed size
//@ outside: lengths that are not an instance of this family; arbitrary input bytes at this level (decided on the kernels; thorough: c03_tags_arb2 / c03_filter_arb3)
#[kani::proof]
#[kani::unwind(8)]
#[kani::stub(core::panic::Location::caller, stub_caller)]
fn c03_filter_outlen_40() {
    filter_outlen_at(40);
}

//@ harness: c03_filter_outlen_41
//@ tier: seeded
//@ group: filter_outlen
//@ timeout: 900
//@ mem: 10
//@ covers: none
//@ unwindset: memcmp.0=12; burn_string=12; eat_whitespace=6; json_unescape=8; memchr=12; walk_tags=6; read_u64=6; parse_json_filter=12
//@ encodes: Filter::from_json, parse_json_filter, put
//@ bounds: the valid text `{"kinds":[1],"#e":["ab"],"limit":3}` parsed into an output buffer of exactly 41 bytes (needs 51), arbitrary prior contents: no panic, error below the needed size
//@ outside: lengths that are not an instance of this family; arbitrary input bytes at this level (decided on the kernels; thorough: c03_tags_arb2 / c03_filter_arb3)
#[kani::proof]
#[kani::unwind(8)]
#[kani::stub(core::panic::Location::caller, stub_caller)]
fn c03_filter_outlen_41() {
    filter_outlen_at(41);
}

//@ harness: c03_filter_outlen_42
//@ tier: seeded
//@ group: filter_outlen
//@ timeout: 900
//@ mem: 10
//@ covers: none
//@ unwindset: memcmp.0=12; burn_string=12; eat_whitespace=6; json_unescape=8; memchr=12; walk_tags=6; read_u64=6; parse_json_filter=12
//@ encodes: Filter::from_json, parse_json_filter, put
//@ bounds: the valid text `{"kinds":[1],"#e":["ab"],"limit":3}` parsed into an output buffer of exactly 42 bytes (needs 51), arbitrary prior contents: no panic, error below the needed size
//@ outside: lengths that are not an instance of this family; arbitrary input bytes at this level (decided on the kernels; thorough: c03_tags_arb2 / c03_filter_arb3)
#[kani::proof]
#[kani::unwind(8)]
#[kani::stub(core::panic::Location::caller, stub_caller)]
fn c03_filter_outlen_42() {
    filter_outlen_at(42);
}

//@ harness: c03_filter_outlen_44
//@ tier: seeded
//@ group: filter_outlen
//@ timeout: 900
//@ mem: 10
//@ covers: none
//@ unwindset: memcmp.0=12; burn_string=12; eat_whitespace=6; json_unescape=8; memchr=12; walk_tags=6; read_u64=6; parse_json_filter=12
//@ encodes: Filter::from_json, parse_json_filter, put
//@ bounds: the valid text `{"kinds":[1],"#e":["ab"],"limit":3}` parsed into an output buffer of exactly 44 bytes (needs 51), arbitrary prior contents: no panic, error below the needed size
//@ outside: lengths that are not an instance of this family; arbitrary input bytes at this level (decided on the kernels; thorough: c03_tags_arb2 / c03_filter_arb3)
#[kani::proof]
#[kani::unwind(8)]
#[kani::stub(core::panic::Location::caller, stub_caller)]
fn c03_filter_outlen_44() {
    filter_outlen_at(44);
}

//@ harness: c03_filter_outlen_46
//@ tier: seeded
//@ group: filter_outlen
//@ timeout: 900
//@ mem: 10
//@ covers: none
//@ unwindset: memcmp.0=12; burn_string=12; eat_whitespace=6; json_unescape=8; memchr=12; walk_tags=6; read_u64=6; parse_json_filter=12
//@ encodes: Filter::from_json, parse_json_filter, put
//@ bounds: the valid text `{"kinds":[1],"#e":["ab"],"limit":3}` parsed into an output buffer of exactly 46 bytes (needs 51), arbitrary prior contents: no panic, error below the needed size
//@ outside: lengths that are not an instance of this family; arbitrary input bytes at this level (decided on the kernels; thorough: c03_tags_arb2 / c03_filter_arb3)
#[kani::proof]
#[kani::unwind(8)]
#[kani::stub(core::panic::Location::caller, stub_caller)]
fn c03_filter_outlen_46() {
    filter_outlen_at(46);
}

//@ harness: c03_filter_outlen_48
//@ tier: seeded
//@ group: filter_outlen
//@ timeout: 900
//@ mem: 10
//@ covers: none
//@ unwindset: memcmp.0=12; burn_string=12; eat_whitespace=6; json_unescape=8; memchr=12; walk_tags=6; read_u64=6; parse_json_filter=12
//@ encodes: Filter::from_json, parse_json_filter, put
//@ bounds: the valid text `{"kinds":[1],"#e":["ab"],"limit":3}` parsed into an output buffer of exactly 48 bytes (needs 51), arbitrary prior contents: no panic, error below the needed size
//@ outside: lengths that are not an instance of this family; arbitrary input bytes at this level (decided on the kernels; thorough: c03_tags_arb2 / c03_filter_arb3)
#[kani::proof]
#[kani::unwind(8)]
#[kani::stub(core::panic::Location::caller, stub_caller)]
fn c03_filter_outlen_48() {
    filter_outlen_at(48);
}

//@ harness: c03_filter_outlen_49
//@ tier: seeded
//@ group: filter_outlen
//@ timeout: 900
//@ mem: 10
//@ covers: none
//@ unwindset: memcmp.0=12; burn_string=12; eat_whitespace=6; json_unescape=8; memchr=12; walk_tags=6; read_u64=6; parse_json_filter=12
//@ encodes: Filter::from_json, parse_json_filter, put
//@ bounds: the valid text `{"kinds":[1],"#e":["ab"],"limit":3}` parsed into an output buffer of exactly 49 bytes (needs 51), arbitrary prior contents: no panic, error below the needed size
//@ outside: lengths that are not an instance of this family; arbitrary input bytes at this level (decided on the kernels; thorough: c03_tags_arb2 / c03_filter_arb3)
#[kani::proof]
#[kani::unwind(8)]
#[kani::stub(core::panic::Location::caller, stub_caller)]
fn c03_filter_outlen_49() {
    filter_outlen_at(49);
}

//@ harness: c03_filter_outlen_50
//@ tier: quick
//@ timeout: 900
//@ mem: 10
//@ covers: none
//@ unwindset: memcmp.0=12; burn_string=12; eat_whitespace=6; json_unescape=8; memchr=12; walk_tags=6; read_u64=6; parse_json_filter=12
//@ encodes: Filter::from_json, parse_json_filter, put
//@ bounds: the valid text `{"kinds":[1],"#e":["ab"],"limit":3}` parsed into an output buffer of exactly 50 bytes (needs 51), arbitrary prior contents: no panic, error below the needed size
//@ outside: lengths that are not an instance of this family; arbitrary input bytes at this level (decided on the kernels; thorough: c03_tags_arb2 / c03_filter_arb3)
#[kani::proof]
#[kani::unwind(8)]
#[kani::stub(core::panic::Location::caller, stub_caller)]
fn c03_filter_outlen_50() {
    filter_outlen_at(50);
}

//@ harness: c03_filter_outlen_51
//@ tier: quick
//@ timeout: 900
//@ mem: 10
//@ covers: none
//@ unwindset: memcmp.0=12; burn_string=12; eat_whitespace=6; json_unescape=8; memchr=12; walk_tags=6; read_u64=6; parse_json_filter=12
//@ encodes: Filter::from_json, parse_json_filter, put
//@ bounds: the valid text `{"kinds":[1],"#e":["ab"],"limit":3}` parsed into an output buffer of exactly 51 bytes (needs 51), arbitrary prior contents: no panic, error below the needed size
//@ outside: lengths that are not an instance of this family; arbitrary input bytes at this level (decided on the kernels; thorough: c03_tags_arb2 / c03_filter_arb3)
#[kani::proof]
#[kani::unwind(8)]
#[kani::stub(core::panic::Location::caller, stub_caller)]
fn c03_filter_outlen_51() {
    filter_outlen_at(51);
}

//@ harness: c03_filter_outlen_52
//@ tier: seeded
//@ group: filter_outlen
//@ timeout: 900
//@ mem: 10
//@ covers: none
//@ unwindset: memcmp.0=12; burn_string=12; eat_whitespace=6; json_unescape=8; memchr=12; walk_tags=6; read_u64=6; parse_json_filter=12
//@ encodes: Filter::from_json, parse_json_filter, put
//@ bounds: the valid text `{"kinds":[1],"#e":["ab"],"limit":3}` parsed into an output buffer of exactly 52 bytes (needs 51), arbitrary prior contents: no panic, error below the needed size
//@ outside: lengths that are not an instance of this family; arbitrary input bytes at this level (decided on the kernels; thorough: c03_tags_arb2 / c03_filter_arb3)
#[kani::proof]
#[kani::unwind(8)]
#[kani::stub(core::panic::Location::caller, stub_caller)]
fn c03_filter_outlen_52() {
    filter_outlen_at(52);
}

//@ harness: c03_filter_outlen_54
//@ tier: seeded
//@ group: filter_outlen
//@ timeout: 900
//@ mem: 10
//@ covers: none
//@ unwindset: memcmp.0=12; burn_string=12; eat_whitespace=6; json_unescape=8; memchr=12; walk_tags=6; read_u64=6; parse_json_filter=12
//@ encodes: Filter::from_json, parse_json_filter, put
//@ bounds: the valid text `{"kinds":[1],"#e":["ab"],"limit":3}` parsed into an output buffer of exactly 54 bytes (needs 51), arbitrary prior contents: no panic, error below the needed size
//@ outside: lengths that are not an instance of this family; arbitrary input bytes at this level (decided on the kernels; thorough: c03_tags_arb2 / c03_filter_arb3)
#[kani::proof]
#[kani::unwind(8)]
#[kani::stub(core::panic::Location::caller, stub_caller)]
fn c03_filter_outlen_54() {
    filter_outlen_at(54);
}

// -------------------------------------------------------------- event ------

fn walk_event(e: &Event) {
    let _ = e.kind();
    let _ = e.created_at();
    let _ = e.id();
    let _ = e.pubkey();
    let _ = e.sig();
    let _ = e.content();
    if let Ok(t) = e.tags() {
        walk_tags(t);
    }
}

/// the valid (constant) event text parsed into one concrete output length, arbitrary prior contents
fn event_outlen_at(text: &[u8; 365], _content_pos: usize, m: usize) {
    let need = 144 + 26 + 4 + 3;
    let mut out: [u8; 190] = kani::any();
    let r = Event::from_json(text, &mut out[..m]);
    match r {
        Ok((consumed, ev)) => {
            assert!(m >= need);
            assert!(consumed == text.len());
            assert!(ev.len() == need);
            assert!(ev.content()[0] == b'h');
            walk_event(ev);
        }
        Err(e) => {
            assert!(m < need);
            core::mem::forget(e);
        }
    }
}

//@ harness: c03_event_outlen_o1_0
//@ tier: thorough
//@ group: event_outlen
//@ timeout: 1500
//@ mem: 14
//@ covers: none
//@ unwindset: read_sig=66; read_id=34; read_pubkey=34; read_hex=66; memcmp.0=34; event_outlen_at=400; event_prefix_at=400; read_u64=22; read_kind=8; burn_string=12; eat_whitespace=6; json_unescape=8; memchr=12; parse_json_event=10
//@ encodes: Event::from_json, parse_json_event, read_tags_array, read_tag, read_content, read_sig, read_id, read_pubkey, json_unescape, put
//@ bounds: a valid 365-byte event text (tags [["e","ab"],["p"],[]], content "hi\n" with its first byte arbitrary; member order 1: tags before content, sig last) parsed into an output buffer of exactly 0 bytes (needs 177) with arbitrary prior contents: no panic; error below the needed size, success with the right content from it
//@ outside: output lengths that are not an instance of this family; a symbolic output length (forks every bounds test: > 40 min in the probe); one parse per harness (two exceed 14 GB)
#[kani::proof]
#[kani::unwind(8)]
#[kani::stub(core::panic::Location::caller, stub_caller)]
fn c03_event_outlen_o1_0() {
    event_outlen_at(EV_T1_O1, EV_T1_O1_CPOS, 0);
}

//@ harness: c03_event_outlen_o1_143
//@ tier: thorough
//@ group: event_outlen
//@ timeout: 1500
//@ mem: 14
//@ covers: none
//@ unwindset: read_sig=66; read_id=34; read_pubkey=34; read_hex=66; memcmp.0=34; event_outlen_at=400; event_prefix_at=400; read_u64=22; read_kind=8; burn_string=12; eat_whitespace=6; json_unescape=8; memchr=12; parse_json_event=10
//@ encodes: Event::from_json, parse_json_event, read_tags_array, read_tag, read_content, read_sig, read_id, read_pubkey, json_unescape, put
//@ bounds: a valid 365-byte event text (tags [["e","ab"],["p"],[]], content "hi\n" with its first byte arbitrary; member order 1: tags before content, sig last) parsed into an output buffer of exactly 143 bytes (needs 177) with arbitrary prior contents: no panic; error below the needed size, success with the right content from it
//@ outside: output lengths that are not an instance of this family; a symbolic output length (forks every bounds test: > 40 min in the probe); one parse per harness (two exceed 14 GB)
#[kani::proof]
#[kani::unwind(8)]
#[kani::stub(core::panic::Location::caller, stub_caller)]
fn c03_event_outlen_o1_143() {
    event_outlen_at(EV_T1_O1, EV_T1_O1_CPOS, 143);
}

//@ harness: c03_event_outlen_o1_151
//@ tier: quick
//@ timeout: 1500
//@ mem: 14
//@ covers: none
//@ unwindset: read_sig=66; read_id=34; read_pubkey=34; read_hex=66; memcmp.0=34; event_outlen_at=400; event_prefix_at=400; read_u64=22; read_kind=8; burn_string=12; eat_whitespace=6; json_unescape=8; memchr=12; parse_json_event=10
//@ encodes: Event::from_json, parse_json_event, read_tags_array, read_tag, read_content, read_sig, read_id, read_pubkey, json_unescape, put
//@ bounds: a valid 365-byte event text (tags [["e","ab"],["p"],[]], content "hi\n" with its first byte arbitrary; member order 1: tags before content, sig last) parsed into an output buffer of exactly 151 bytes (needs 177) with arbitrary prior contents: no panic; error below the needed size, success with the right content from it
//@ outside: output lengths that are not an instance of this family; a symbolic output length (forks every bounds test: > 40 min in the probe); one parse per harness (two exceed 14 GB)
#[kani::proof]
#[kani::unwind(8)]
#[kani::stub(core::panic::Location::caller, stub_caller)]
fn c03_event_outlen_o1_151() {
    event_outlen_at(EV_T1_O1, EV_T1_O1_CPOS, 151);
}

//@ harness: c03_event_outlen_o1_152
//@ tier: thorough
//@ group: event_outlen
//@ timeout: 1500
//@ mem: 14
//@ covers: none
//@ unwindset: read_sig=66; read_id=34; read_pubkey=34; read_hex=66; memcmp.0=34; event_outlen_at=400; event_prefix_at=400; read_u64=22; read_kind=8; burn_string=12; eat_whitespace=6; json_unescape=8; memchr=12; parse_json_event=10
//@ encodes: Event::from_json, parse_json_event, read_tags_array, read_tag, read_content, read_sig, read_id, read_pubkey, json_unescape, put
//@ bounds: a valid 365-byte event text (tags [["e","ab"],["p"],[]], content "hi\n" with its first byte arbitrary; member order 1: tags before content, sig last) parsed into an output buffer of exactly 152 bytes (needs 177) with arbitrary prior contents: no panic; error below the needed size, success with the right content from it
//@ outside: output lengths that are not an instance of this family; a symbolic output length (forks every bounds test: > 40 min in the probe); one parse per harness (two exceed 14 GB)
#[kani::proof]
#[kani::unwind(8)]
#[kani::stub(core::panic::Location::caller, stub_caller)]
fn c03_event_outlen_o1_152() {
    event_outlen_at(EV_T1_O1, EV_T1_O1_CPOS, 152);
}

//@ harness: c03_event_outlen_o1_153
//@ tier: thorough
//@ group: event_outlen
//@ timeout: 1500
//@ mem: 14
//@ covers: none
//@ unwindset: read_sig=66; read_id=34; read_pubkey=34; read_hex=66; memcmp.0=34; event_outlen_at=400; event_prefix_at=400; read_u64=22; read_kind=8; burn_string=12; eat_whitespace=6; json_unescape=8; memchr=12; parse_json_event=10
//@ encodes: Event::from_json, parse_json_event, read_tags_array, read_tag, read_content, read_sig, read_id, read_pubkey, json_unescape, put
//@ bounds: a valid 365-byte event text (tags [["e","ab"],["p"],[]], content "hi\n" with its first byte arbitrary; member order 1: tags before content, sig last) parsed into an output buffer of exactly 153 bytes (needs 177) with arbitrary prior contents: no panic; error below the needed size, success with the right content from it
//@ outside: output lengths that are not an instance of this family; a symbolic output length (forks every bounds test: > 40 min in the probe); one parse per harness (two exceed 14 GB)
#[kani::proof]
#[kani::unwind(8)]
#[kani::stub(core::panic::Location::caller, stub_caller)]
fn c03_event_outlen_o1_153() {
    event_outlen_at(EV_T1_O1, EV_T1_O1_CPOS, 153);
}

//@ harness: c03_event_outlen_o1_158
//@ tier: thorough
//@ group: event_outlen
//@ timeout: 1500
//@ mem: 14
//@ covers: none
//@ unwindset: read_sig=66; read_id=34; read_pubkey=34; read_hex=66; memcmp.0=34; event_outlen_at=400; event_prefix_at=400; read_u64=22; read_kind=8; burn_string=12; eat_whitespace=6; json_unescape=8; memchr=12; parse_json_event=10
//@ encodes: Event::from_json, parse_json_event, read_tags_array, read_tag, read_content, read_sig, read_id, read_pubkey, json_unescape, put
//@ bounds: a valid 365-byte event text (tags [["e","ab"],["p"],[]], content "hi\n" with its first byte arbitrary; member order 1: tags before content, sig last) parsed into an output buffer of exactly 158 bytes (needs 177) with arbitrary prior contents: no panic; error below the needed size, success with the right content from it
//@ outside: output lengths that are not an instance of this family; a symbolic output length (forks every bounds test: > 40 min in the probe); one parse per harness (two exceed 14 GB)
#[kani::proof]
#[kani::unwind(8)]
#[kani::stub(core::panic::Location::caller, stub_caller)]
fn c03_event_outlen_o1_158() {
    event_outlen_at(EV_T1_O1, EV_T1_O1_CPOS, 158);
}

//@ harness: c03_event_outlen_o1_163
//@ tier: thorough
//@ group: event_outlen
//@ timeout: 1500
//@ mem: 14
//@ covers: none
//@ unwindset: read_sig=66; read_id=34; read_pubkey=34; read_hex=66; memcmp.0=34; event_outlen_at=400; event_prefix_at=400; read_u64=22; read_kind=8; burn_string=12; eat_whitespace=6; json_unescape=8; memchr=12; parse_json_event=10
//@ encodes: Event::from_json, parse_json_event, read_tags_array, read_tag, read_content, read_sig, read_id, read_pubkey, json_unescape, put
//@ bounds: a valid 365-byte event text (tags [["e","ab"],["p"],[]], content "hi\n" with its first byte arbitrary; member order 1: tags before content, sig last) parsed into an output buffer of exactly 163 bytes (needs 177) with arbitrary prior contents: no panic; error below the needed size, success with the right content from it
//@ outside: output lengths that are not an instance of this family; a symbolic output length (forks every bounds test: > 40 min in the probe); one parse per harness (two exceed 14 GB)
#[kani::proof]
#[kani::unwind(8)]
#[kani::stub(core::panic::Location::caller, stub_caller)]
fn c03_event_outlen_o1_163() {
    event_outlen_at(EV_T1_O1, EV_T1_O1_CPOS, 163);
}

//@ harness: c03_event_outlen_o1_170
//@ tier: thorough
//@ group: event_outlen
//@ timeout: 1500
//@ mem: 14
//@ covers: none
//@ unwindset: read_sig=66; read_id=34; read_pubkey=34; read_hex=66; memcmp.0=34; event_outlen_at=400; event_prefix_at=400; read_u64=22; read_kind=8; burn_string=12; eat_whitespace=6; json_unescape=8; memchr=12; parse_json_event=10
//@ encodes: Event::from_json, parse_json_event, read_tags_array, read_tag, read_content, read_sig, read_id, read_pubkey, json_unescape, put
//@ bounds: a valid 365-byte event text (tags [["e","ab"],["p"],[]], content "hi\n" with its first byte arbitrary; member order 1: tags before content, sig last) parsed into an output buffer of exactly 170 bytes (needs 177) with arbitrary prior contents: no panic; error below the needed size, success with the right content from it
//@ outside: output lengths that are not an instance of this family; a symbolic output length (forks every bounds test: > 40 min in the probe); one parse per harness (two exceed 14 GB)
#[kani::proof]
#[kani::unwind(8)]
#[kani::stub(core::panic::Location::caller, stub_caller)]
fn c03_event_outlen_o1_170() {
    event_outlen_at(EV_T1_O1, EV_T1_O1_CPOS, 170);
}

//@ harness: c03_event_outlen_o1_171
//@ tier: thorough
//@ group: event_outlen
//@ timeout: 1500
//@ mem: 14
//@ covers: none
//@ unwindset: read_sig=66; read_id=34; read_pubkey=34; read_hex=66; memcmp.0=34; event_outlen_at=400; event_prefix_at=400; read_u64=22; read_kind=8; burn_string=12; eat_whitespace=6; json_unescape=8; memchr=12; parse_json_event=10
//@ encodes: Event::from_json, parse_json_event, read_tags_array, read_tag, read_content, read_sig, read_id, read_pubkey, json_unescape, put
//@ bounds: a valid 365-byte event text (tags [["e","ab"],["p"],[]], content "hi\n" with its first byte arbitrary; member order 1: tags before content, sig last) parsed into an output buffer of exactly 171 bytes (needs 177) with arbitrary prior contents: no panic; error below the needed size, success with the right content from it
//@ outside: output lengths that are not an instance of this family; a symbolic output length (forks every bounds test: > 40 min in the probe); one parse per harness (two exceed 14 GB)
#[kani::proof]
#[kani::unwind(8)]
#[kani::stub(core::panic::Location::caller, stub_caller)]
fn c03_event_outlen_o1_171() {
    event_outlen_at(EV_T1_O1, EV_T1_O1_CPOS, 171);
}

//@ harness: c03_event_outlen_o1_173
//@ tier: thorough
//@ group: event_outlen
//@ timeout: 1500
//@ mem: 14
//@ covers: none
//@ unwindset: read_sig=66; read_id=34; read_pubkey=34; read_hex=66; memcmp.0=34; event_outlen_at=400; event_prefix_at=400; read_u64=22; read_kind=8; burn_string=12; eat_whitespace=6; json_unescape=8; memchr=12; parse_json_event=10
//@ encodes: Event::from_json, parse_json_event, read_tags_array, read_tag, read_content, read_sig, read_id, read_pubkey, json_unescape, put
//@ bounds: a valid 365-byte event text (tags [["e","ab"],["p"],[]], content "hi\n" with its first byte arbitrary; member order 1: tags before content, sig last) parsed into an output buffer of exactly 173 bytes (needs 177) with arbitrary prior contents: no panic; error below the needed size, success with the right content from it
//@ outside: output lengths that are not an instance of this family; a symbolic output length (forks every bounds test: > 40 min in the probe); one parse per harness (two exceed 14 GB)
#[kani::proof]
#[kani::unwind(8)]
#[kani::stub(core::panic::Location::caller, stub_caller)]
fn c03_event_outlen_o1_173() {
    event_outlen_at(EV_T1_O1, EV_T1_O1_CPOS, 173);
}

//@ harness: c03_event_outlen_o1_175
//@ tier: thorough
//@ group: event_outlen
//@ timeout: 1500
//@ mem: 14
//@ covers: none
//@ unwindset: read_sig=66; read_id=34; read_pubkey=34; read_hex=66; memcmp.0=34; event_outlen_at=400; event_prefix_at=400; read_u64=22; read_kind=8; burn_string=12; eat_whitespace=6; json_unescape=8; memchr=12; parse_json_event=10
//@ encodes: Event::from_json, parse_json_event, read_tags_array, read_tag, read_content, read_sig, read_id, read_pubkey, json_unescape, put
//@ bounds: a valid 365-byte event text (tags [["e","ab"],["p"],[]], content "hi\n" with its first byte arbitrary; member order 1: tags before content, sig last) parsed into an output buffer of exactly 175 bytes (needs 177) with arbitrary prior contents: no panic; error below the needed size, success with the right content from it
//@ outside: output lengths that are not an instance of this family; a symbolic output length (forks every bounds test: > 40 min in the probe); one parse per harness (two exceed 14 GB)
#[kani::proof]
#[kani::unwind(8)]
#[kani::stub(core::panic::Location::caller, stub_caller)]
fn c03_event_outlen_o1_175() {
    event_outlen_at(EV_T1_O1, EV_T1_O1_CPOS, 175);
}

//@ harness: c03_event_outlen_o1_176
//@ tier: thorough
//@ group: event_outlen
//@ timeout: 1500
//@ mem: 14
//@ covers: none
//@ unwindset: read_sig=66; read_id=34; read_pubkey=34; read_hex=66; memcmp.0=34; event_outlen_at=400; event_prefix_at=400; read_u64=22; read_kind=8; burn_string=12; eat_whitespace=6; json_unescape=8; memchr=12; parse_json_event=10
//@ encodes: Event::from_json, parse_json_event, read_tags_array, read_tag, read_content, read_sig, read_id, read_pubkey, json_unescape, put
//@ bounds: a valid 365-byte event text (tags [["e","ab"],["p"],[]], content "hi\n" with its first byte arbitrary; member order 1: tags before content, sig last) parsed into an output buffer of exactly 176 bytes (needs 177) with arbitrary prior contents: no panic; error below the needed size, success with the right content from it
//@ outside: output lengths that are not an instance of this family; a symbolic output length (forks every bounds test: > 40 min in the probe); one parse per harness (two exceed 14 GB)
#[kani::proof]
#[kani::unwind(8)]
#[kani::stub(core::panic::Location::caller, stub_caller)]
fn c03_event_outlen_o1_176() {
    event_outlen_at(EV_T1_O1, EV_T1_O1_CPOS, 176);
}

//@ harness: c03_event_outlen_o1_177
//@ tier: thorough
//@ group: event_outlen
//@ timeout: 1500
//@ mem: 14
//@ covers: none
//@ unwindset: read_sig=66; read_id=34; read_pubkey=34; read_hex=66; memcmp.0=34; event_outlen_at=400; event_prefix_at=400; read_u64=22; read_kind=8; burn_string=12; eat_whitespace=6; json_unescape=8; memchr=12; parse_json_event=10
//@ encodes: Event::from_json, parse_json_event, read_tags_array, read_tag, read_content, read_sig, read_id, read_pubkey, json_unescape, put
//@ bounds: a valid 365-byte event text (tags [["e","ab"],["p"],[]], content "hi\n" with its first byte arbitrary; member order 1: tags before content, sig last) parsed into an output buffer of exactly 177 bytes (needs 177) with arbitrary prior contents: no panic; error below the needed size, success with the right content from it
//@ outside: output lengths that are not an instance of this family; a symbolic output length (forks every bounds test: > 40 min in the probe); one parse per harness (two exceed 14 GB)
#[kani::proof]
#[kani::unwind(8)]
#[kani::stub(core::panic::Location::caller, stub_caller)]
fn c03_event_outlen_o1_177() {
    event_outlen_at(EV_T1_O1, EV_T1_O1_CPOS, 177);
}

//@ harness: c03_event_outlen_o1_178
//@ tier: thorough
//@ group: event_outlen
//@ timeout: 1500
//@ mem: 14
//@ covers: none
//@ unwindset: read_sig=66; read_id=34; read_pubkey=34; read_hex=66; memcmp.0=34; event_outlen_at=400; event_prefix_at=400; read_u64=22; read_kind=8; burn_string=12; eat_whitespace=6; json_unescape=8; memchr=12; parse_json_event=10
//@ encodes: Event::from_json, parse_json_event, read_tags_array, read_tag, read_content, read_sig, read_id, read_pubkey, json_unescape, put
//@ bounds: a valid 365-byte event text (tags [["e","ab"],["p"],[]], content "hi\n" with its first byte arbitrary; member order 1: tags before content, sig last) parsed into an output buffer of exactly 178 bytes (needs 177) with arbitrary prior contents: no panic; error below the needed size, success with the right content from it
//@ outside: output lengths that are not an instance of this family; a symbolic output length (forks every bounds test: > 40 min in the probe); one parse per harness (two exceed 14 GB)
#[kani::proof]
#[kani::unwind(8)]
#[kani::stub(core::panic::Location::caller, stub_caller)]
fn c03_event_outlen_o1_178() {
    event_outlen_at(EV_T1_O1, EV_T1_O1_CPOS, 178);
}

//@ harness: c03_event_outlen_o2_0
//@ tier: thorough
//@ group: event_outlen
//@ timeout: 1500
//@ mem: 14
//@ covers: none
//@ unwindset: read_sig=66; read_id=34; read_pubkey=34; read_hex=66; memcmp.0=34; event_outlen_at=400; event_prefix_at=400; read_u64=22; read_kind=8; burn_string=12; eat_whitespace=6; json_unescape=8; memchr=12; parse_json_event=10
//@ encodes: Event::from_json, parse_json_event, read_tags_array, read_tag, read_content, read_sig, read_id, read_pubkey, json_unescape, put
//@ bounds: a valid 365-byte event text (tags [["e","ab"],["p"],[]], content "hi\n" with its first byte arbitrary; member order 2: content before tags - deferred content -, id last) parsed into an output buffer of exactly 0 bytes (needs 177) with arbitrary prior contents: no panic; error below the needed size, success with the right content from it
//@ outside: output lengths that are not an instance of this family; a symbolic output length (forks every bounds test: > 40 min in the probe); one parse per harness (two exceed 14 GB)
#[kani::proof]
#[kani::unwind(8)]
#[kani::stub(core::panic::Location::caller, stub_caller)]
fn c03_event_outlen_o2_0() {
    event_outlen_at(EV_T1_O2, EV_T1_O2_CPOS, 0);
}

//@ harness: c03_event_outlen_o2_143
//@ tier: thorough
//@ group: event_outlen
//@ timeout: 1500
//@ mem: 14
//@ covers: none
//@ unwindset: read_sig=66; read_id=34; read_pubkey=34; read_hex=66; memcmp.0=34; event_outlen_at=400; event_prefix_at=400; read_u64=22; read_kind=8; burn_string=12; eat_whitespace=6; json_unescape=8; memchr=12; parse_json_event=10
//@ encodes: Event::from_json, parse_json_event, read_tags_array, read_tag, read_content, read_sig, read_id, read_pubkey, json_unescape, put
//@ bounds: a valid 365-byte event text (tags [["e","ab"],["p"],[]], content "hi\n" with its first byte arbitrary; member order 2: content before tags - deferred content -, id last) parsed into an output buffer of exactly 143 bytes (needs 177) with arbitrary prior contents: no panic; error below the needed size, success with the right content from it
//@ outside: output lengths that are not an instance of this family; a symbolic output length (forks every bounds test: > 40 min in the probe); one parse per harness (two exceed 14 GB)
#[kani::proof]
#[kani::unwind(8)]
#[kani::stub(core::panic::Location::caller, stub_caller)]
fn c03_event_outlen_o2_143() {
    event_outlen_at(EV_T1_O2, EV_T1_O2_CPOS, 143);
}

//@ harness: c03_event_outlen_o2_151
//@ tier: thorough
//@ group: event_outlen
//@ timeout: 1500
//@ mem: 14
//@ covers: none
//@ unwindset: read_sig=66; read_id=34; read_pubkey=34; read_hex=66; memcmp.0=34; event_outlen_at=400; event_prefix_at=400; read_u64=22; read_kind=8; burn_string=12; eat_whitespace=6; json_unescape=8; memchr=12; parse_json_event=10
//@ encodes: Event::from_json, parse_json_event, read_tags_array, read_tag, read_content, read_sig, read_id, read_pubkey, json_unescape, put
//@ bounds: a valid 365-byte event text (tags [["e","ab"],["p"],[]], content "hi\n" with its first byte arbitrary; member order 2: content before tags - deferred content -, id last) parsed into an output buffer of exactly 151 bytes (needs 177) with arbitrary prior contents: no panic; error below the needed size, success with the right content from it
//@ outside: output lengths that are not an instance of this family; a symbolic output length (forks every bounds test: > 40 min in the probe); one parse per harness (two exceed 14 GB)
#[kani::proof]
#[kani::unwind(8)]
#[kani::stub(core::panic::Location::caller, stub_caller)]
fn c03_event_outlen_o2_151() {
    event_outlen_at(EV_T1_O2, EV_T1_O2_CPOS, 151);
}

//@ harness: c03_event_outlen_o2_152
//@ tier: quick
//@ timeout: 1500
//@ mem: 14
//@ covers: none
//@ unwindset: read_sig=66; read_id=34; read_pubkey=34; read_hex=66; memcmp.0=34; event_outlen_at=400; event_prefix_at=400; read_u64=22; read_kind=8; burn_string=12; eat_whitespace=6; json_unescape=8; memchr=12; parse_json_event=10
//@ encodes: Event::from_json, parse_json_event, read_tags_array, read_tag, read_content, read_sig, read_id, read_pubkey, json_unescape, put
//@ bounds: a valid 365-byte event text (tags [["e","ab"],["p"],[]], content "hi\n" with its first byte arbitrary; member order 2: content before tags - deferred content -, id last) parsed into an output buffer of exactly 152 bytes (needs 177) with arbitrary prior contents: no panic; error below the needed size, success with the right content from it
//@ outside: output lengths that are not an instance of this family; a symbolic output length (forks every bounds test: > 40 min in the probe); one parse per harness (two exceed 14 GB)
#[kani::proof]
#[kani::unwind(8)]
#[kani::stub(core::panic::Location::caller, stub_caller)]
fn c03_event_outlen_o2_152() {
    event_outlen_at(EV_T1_O2, EV_T1_O2_CPOS, 152);
}

//@ harness: c03_event_outlen_o2_153
//@ tier: thorough
//@ group: event_outlen
//@ timeout: 1500
//@ mem: 14
//@ covers: none
//@ unwindset: read_sig=66; read_id=34; read_pubkey=34; read_hex=66; memcmp.0=34; event_outlen_at=400; event_prefix_at=400; read_u64=22; read_kind=8; burn_string=12; eat_whitespace=6; json_unescape=8; memchr=12; parse_json_event=10
//@ encodes: Event::from_json, parse_json_event, read_tags_array, read_tag, read_content, read_sig, read_id, read_pubkey, json_unescape, put
//@ bounds: a valid 365-byte event text (tags [["e","ab"],["p"],[]], content "hi\n" with its first byte arbitrary; member order 2: content before tags - deferred content -, id last) parsed into an output buffer of exactly 153 bytes (needs 177) with arbitrary prior contents: no panic; error below the needed size, success with the right content from it
//@ outside: output lengths that are not an instance of this family; a symbolic output length (forks every bounds test: > 40 min in the probe); one parse per harness (two exceed 14 GB)
#[kani::proof]
#[kani::unwind(8)]
#[kani::stub(core::panic::Location::caller, stub_caller)]
fn c03_event_outlen_o2_153() {
    event_outlen_at(EV_T1_O2, EV_T1_O2_CPOS, 153);
}

//@ harness: c03_event_outlen_o2_158
//@ tier: thorough
//@ group: event_outlen
//@ timeout: 1500
//@ mem: 14
//@ covers: none
//@ unwindset: read_sig=66; read_id=34; read_pubkey=34; read_hex=66; memcmp.0=34; event_outlen_at=400; event_prefix_at=400; read_u64=22; read_kind=8; burn_string=12; eat_whitespace=6; json_unescape=8; memchr=12; parse_json_event=10
//@ encodes: Event::from_json, parse_json_event, read_tags_array, read_tag, read_content, read_sig, read_id, read_pubkey, json_unescape, put
//@ bounds: a valid 365-byte event text (tags [["e","ab"],["p"],[]], content "hi\n" with its first byte arbitrary; member order 2: content before tags - deferred content -, id last) parsed into an output buffer of exactly 158 bytes (needs 177) with arbitrary prior contents: no panic; error below the needed size, success with the right content from it
//@ outside: output lengths that are not an instance of this family; a symbolic output length (forks every bounds test: > 40 min in the probe); one parse per harness (two exceed 14 GB)
#[kani::proof]
#[kani::unwind(8)]
#[kani::stub(core::panic::Location::caller, stub_caller)]
fn c03_event_outlen_o2_158() {
    event_outlen_at(EV_T1_O2, EV_T1_O2_CPOS, 158);
}

//@ harness: c03_event_outlen_o2_163
//@ tier: thorough
//@ group: event_outlen
//@ timeout: 1500
//@ mem: 14
//@ covers: none
//@ unwindset: read_sig=66; read_id=34; read_pubkey=34; read_hex=66; memcmp.0=34; event_outlen_at=400; event_prefix_at=400; read_u64=22; read_kind=8; burn_string=12; eat_whitespace=6; json_unescape=8; memchr=12; parse_json_event=10
//@ encodes: Event::from_json, parse_json_event, read_tags_array, read_tag, read_content, read_sig, read_id, read_pubkey, json_unescape, put
//@ bounds: a valid 365-byte event text (tags [["e","ab"],["p"],[]], content "hi\n" with its first byte arbitrary; member order 2: content before tags - deferred content -, id last) parsed into an output buffer of exactly 163 bytes (needs 177) with arbitrary prior contents: no panic; error below the needed size, success with the right content from it
//@ outside: output lengths that are not an instance of this family; a symbolic output length (forks every bounds test: > 40 min in the probe); one parse per harness (two exceed 14 GB)
#[kani::proof]
#[kani::unwind(8)]
#[kani::stub(core::panic::Location::caller, stub_caller)]
fn c03_event_outlen_o2_163() {
    event_outlen_at(EV_T1_O2, EV_T1_O2_CPOS, 163);
}

//@ harness: c03_event_outlen_o2_170
//@ tier: thorough
//@ group: event_outlen
//@ timeout: 1500
//@ mem: 14
//@ covers: none
//@ unwindset: read_sig=66; read_id=34; read_pubkey=34; read_hex=66; memcmp.0=34; event_outlen_at=400; event_prefix_at=400; read_u64=22; read_kind=8; burn_string=12; eat_whitespace=6; json_unescape=8; memchr=12; parse_json_event=10
//@ encodes: Event::from_json, parse_json_event, read_tags_array, read_tag, read_content, read_sig, read_id, read_pubkey, json_unescape, put
//@ bounds: a valid 365-byte event text (tags [["e","ab"],["p"],[]], content "hi\n" with its first byte arbitrary; member order 2: content before tags - deferred content -, id last) parsed into an output buffer of exactly 170 bytes (needs 177) with arbitrary prior contents: no panic; error below the needed size, success with the right content from it
//@ outside: output lengths that are not an instance of this family; a symbolic output length (forks every bounds test: > 40 min in the probe); one parse per harness (two exceed 14 GB)
#[kani::proof]
#[kani::unwind(8)]
#[kani::stub(core::panic::Location::caller, stub_caller)]
fn c03_event_outlen_o2_170() {
    event_outlen_at(EV_T1_O2, EV_T1_O2_CPOS, 170);
}

//@ harness: c03_event_outlen_o2_171
//@ tier: thorough
//@ group: event_outlen
//@ timeout: 1500
//@ mem: 14
//@ covers: none
//@ unwindset: read_sig=66; read_id=34; read_pubkey=34; read_hex=66; memcmp.0=34; event_outlen_at=400; event_prefix_at=400; read_u64=22; read_kind=8; burn_string=12; eat_whitespace=6; json_unescape=8; memchr=12; parse_json_event=10
//@ encodes: Event::from_json, parse_json_event, read_tags_array, read_tag, read_content, read_sig, read_id, read_pubkey, json_unescape, put
//@ bounds: a valid 365-byte event text (tags [["e","ab"],["p"],[]], content "hi\n" with its first byte arbitrary; member order 2: content before tags - deferred content -, id last) parsed into an output buffer of exactly 171 bytes (needs 177) with arbitrary prior contents: no panic; error below the needed size, success with the right content from it
//@ outside: output lengths that are not an instance of this family; a symbolic output length (forks every bounds test: > 40 min in the probe); one parse per harness (two exceed 14 GB)
#[kani::proof]
#[kani::unwind(8)]
#[kani::stub(core::panic::Location::caller, stub_caller)]
fn c03_event_outlen_o2_171() {
    event_outlen_at(EV_T1_O2, EV_T1_O2_CPOS, 171);
}

//@ harness: c03_event_outlen_o2_173
//@ tier: thorough
//@ group: event_outlen
//@ timeout: 1500
//@ mem: 14
//@ covers: none
//@ unwindset: read_sig=66; read_id=34; read_pubkey=34; read_hex=66; memcmp.0=34; event_outlen_at=400; event_prefix_at=400; read_u64=22; read_kind=8; burn_string=12; eat_whitespace=6; json_unescape=8; memchr=12; parse_json_event=10
//@ encodes: Event::from_json, parse_json_event, read_tags_array, read_tag, read_content, read_sig, read_id, read_pubkey, json_unescape, put
//@ bounds: a valid 365-byte event text (tags [["e","ab"],["p"],[]], content "hi\n" with its first byte arbitrary; member order 2: content before tags - deferred content -, id last) parsed into an output buffer of exactly 173 bytes (needs 177) with arbitrary prior contents: no panic; error below the needed size, success with the right content from it
//@ outside: output lengths that are not an instance of this family; a symbolic output length (forks every bounds test: > 40 min in the probe); one parse per harness (two exceed 14 GB)
#[kani::proof]
#[kani::unwind(8)]
#[kani::stub(core::panic::Location::caller, stub_caller)]
fn c03_event_outlen_o2_173() {
    event_outlen_at(EV_T1_O2, EV_T1_O2_CPOS, 173);
}

//@ harness: c03_event_outlen_o2_175
//@ tier: thorough
//@ group: event_outlen
//@ timeout: 1500
//@ mem: 14
//@ covers: none
//@ unwindset: read_sig=66; read_id=34; read_pubkey=34; read_hex=66; memcmp.0=34; event_outlen_at=400; event_prefix_at=400; read_u64=22; read_kind=8; burn_string=12; eat_whitespace=6; json_unescape=8; memchr=12; parse_json_event=10
//@ encodes: Event::from_json, parse_json_event, read_tags_array, read_tag, read_content, read_sig, read_id, read_pubkey, json_unescape, put
//@ bounds: a valid 365-byte event text (tags [["e","ab"],["p"],[]], content "hi\n" with its first byte arbitrary; member order 2: content before tags - deferred content -, id last) parsed into an output buffer of exactly 175 bytes (needs 177) with arbitrary prior contents: no panic; error below the needed size, success with the right content from it
//@ outside: output lengths that are not an instance of this family; a symbolic output length (forks every bounds test: > 40 min in the probe); one parse per harness (two exceed 14 GB)
#[kani::proof]
#[kani::unwind(8)]
#[kani::stub(core::panic::Location::caller, stub_caller)]
fn c03_event_outlen_o2_175() {
    event_outlen_at(EV_T1_O2, EV_T1_O2_CPOS, 175);
}

//@ harness: c03_event_outlen_o2_176
//@ tier: thorough
//@ group: event_outlen
//@ timeout: 1500
//@ mem: 14
//@ covers: none
//@ unwindset: read_sig=66; read_id=34; read_pubkey=34; read_hex=66; memcmp.0=34; event_outlen_at=400; event_prefix_at=400; read_u64=22; read_kind=8; burn_string=12; eat_whitespace=6; json_unescape=8; memchr=12; parse_json_event=10
//@ encodes: Event::from_json, parse_json_event, read_tags_array, read_tag, read_content, read_sig, read_id, read_pubkey, json_unescape, put
//@ bounds: a valid 365-byte event text (tags [["e","ab"],["p"],[]], content "hi\n" with its first byte arbitrary; member order 2: content before tags - deferred content -, id last) parsed into an output buffer of exactly 176 bytes (needs 177) with arbitrary prior contents: no panic; error below the needed size, success with the right content from it
//@ outside: output lengths that are not an instance of this family; a symbolic output length (forks every bounds test: > 40 min in the probe); one parse per harness (two exceed 14 GB)
#[kani::proof]
#[kani::unwind(8)]
#[kani::stub(core::panic::Location::caller, stub_caller)]
fn c03_event_outlen_o2_176() {
    event_outlen_at(EV_T1_O2, EV_T1_O2_CPOS, 176);
}

//@ harness: c03_event_outlen_o2_177
//@ tier: thorough
//@ group: event_outlen
//@ timeout: 1500
//@ mem: 14
//@ covers: none
//@ unwindset: read_sig=66; read_id=34; read_pubkey=34; read_hex=66; memcmp.0=34; event_outlen_at=400; event_prefix_at=400; read_u64=22; read_kind=8; burn_string=12; eat_whitespace=6; json_unescape=8; memchr=12; parse_json_event=10
//@ encodes: Event::from_json, parse_json_event, read_tags_array, read_tag, read_content, read_sig, read_id, read_pubkey, json_unescape, put
//@ bounds: a valid 365-byte event text (tags [["e","ab"],["p"],[]], content "hi\n" with its first byte arbitrary; member order 2: content before tags - deferred content -, id last) parsed into an output buffer of exactly 177 bytes (needs 177) with arbitrary prior contents: no panic; error below the needed size, success with the right content from it
//@ outside: output lengths that are not an instance of this family; a symbolic output length (forks every bounds test: > 40 min in the probe); one parse per harness (two exceed 14 GB)
#[kani::proof]
#[kani::unwind(8)]
#[kani::stub(core::panic::Location::caller, stub_caller)]
fn c03_event_outlen_o2_177() {
    event_outlen_at(EV_T1_O2, EV_T1_O2_CPOS, 177);
}

//@ harness: c03_event_outlen_o2_178
//@ tier: thorough
//@ group: event_outlen
//@ timeout: 1500
//@ mem: 14
//@ covers: none
//@ unwindset: read_sig=66; read_id=34; read_pubkey=34; read_hex=66; memcmp.0=34; event_outlen_at=400; event_prefix_at=400; read_u64=22; read_kind=8; burn_string=12; eat_whitespace=6; json_unescape=8; memchr=12; parse_json_event=10
//@ encodes: Event::from_json, parse_json_event, read_tags_array, read_tag, read_content, read_sig, read_id, read_pubkey, json_unescape, put
//@ bounds: a valid 365-byte event text (tags [["e","ab"],["p"],[]], content "hi\n" with its first byte arbitrary; member order 2: content before tags - deferred content -, id last) parsed into an output buffer of exactly 178 bytes (needs 177) with arbitrary prior contents: no panic; error below the needed size, success with the right content from it
//@ outside: output lengths that are not an instance of this family; a symbolic output length (forks every bounds test: > 40 min in the probe); one parse per harness (two exceed 14 GB)
#[kani::proof]
#[kani::unwind(8)]
#[kani::stub(core::panic::Location::caller, stub_caller)]
fn c03_event_outlen_o2_178() {
    event_outlen_at(EV_T1_O2, EV_T1_O2_CPOS, 178);
}

/// the valid (constant) event text cut after n bytes, arbitrary prior contents of the output buffer
fn event_prefix_at(text: &[u8; 365], n: usize) {
    let mut out: [u8; 192] = kani::any();
    let r = Event::from_json(&text[..n], &mut out);
    match r {
        Ok((consumed, ev)) => {
            assert!(consumed <= n);
            walk_event(ev);
        }
        Err(e) => core::mem::forget(e),
    }
}

//@ harness: c03_event_prefix_o1_204
//@ tier: thorough
//@ timeout: 3600
//@ mem: 14
//@ covers: none
//@ unwindset: read_sig=66; read_id=34; read_pubkey=34; read_hex=66; memcmp.0=34; event_outlen_at=400; event_prefix_at=400; read_u64=22; read_kind=8; burn_string=12; eat_whitespace=6; json_unescape=8; memchr=12; parse_json_event=10
//@ encodes: Event::from_json, parse_json_event and every reader it calls
//@ bounds: the valid 365-byte event text (order 1) cut after 204 bytes (pure truncation), arbitrary prior output buffer: no panic, consumed <= length
//@ outside: prefix lengths that are not an instance of this family (inputs shorter than 204 bytes are rejected up front)
#[kani::proof]
#[kani::unwind(8)]
#[kani::stub(core::panic::Location::caller, stub_caller)]
fn c03_event_prefix_o1_204() {
    event_prefix_at(EV_T1_O1, 204);
}

//@ harness: c03_event_prefix_o1_205
//@ tier: thorough
//@ group: event_prefix
//@ timeout: 3600
//@ mem: 14
//@ covers: none
//@ unwindset: read_sig=66; read_id=34; read_pubkey=34; read_hex=66; memcmp.0=34; event_outlen_at=400; event_prefix_at=400; read_u64=22; read_kind=8; burn_string=12; eat_whitespace=6; json_unescape=8; memchr=12; parse_json_event=10
//@ encodes: Event::from_json, parse_json_event and every reader it calls
//@ bounds: the valid 365-byte event text (order 1) cut after 205 bytes (pure truncation), arbitrary prior output buffer: no panic, consumed <= length
//@ outside: prefix lengths that are not an instance of this family (inputs shorter than 204 bytes are rejected up front)
#[kani::proof]
#[kani::unwind(8)]
#[kani::stub(core::panic::Location::caller, stub_caller)]
fn c03_event_prefix_o1_205() {
    event_prefix_at(EV_T1_O1, 205);
}

//@ harness: c03_event_prefix_o1_210
//@ tier: thorough
//@ group: event_prefix
//@ timeout: 1500
//@ mem: 14
//@ covers: none
//@ unwindset: read_sig=66; read_id=34; read_pubkey=34; read_hex=66; memcmp.0=34; event_outlen_at=400; event_prefix_at=400; read_u64=22; read_kind=8; burn_string=12; eat_whitespace=6; json_unescape=8; memchr=12; parse_json_event=10
//@ encodes: Event::from_json, parse_json_event and every reader it calls
//@ bounds: the valid 365-byte event text (order 1) cut after 210 bytes (pure truncation), arbitrary prior output buffer: no panic, consumed <= length
//@ outside: prefix lengths that are not an instance of this family (inputs shorter than 204 bytes are rejected up front)
#[kani::proof]
#[kani::unwind(8)]
#[kani::stub(core::panic::Location::caller, stub_caller)]
fn c03_event_prefix_o1_210() {
    event_prefix_at(EV_T1_O1, 210);
}

//@ harness: c03_event_prefix_o1_222
//@ tier: thorough
//@ group: event_prefix
//@ timeout: 1500
//@ mem: 14
//@ covers: none
//@ unwindset: read_sig=66; read_id=34; read_pubkey=34; read_hex=66; memcmp.0=34; event_outlen_at=400; event_prefix_at=400; read_u64=22; read_kind=8; burn_string=12; eat_whitespace=6; json_unescape=8; memchr=12; parse_json_event=10
//@ encodes: Event::from_json, parse_json_event and every reader it calls
//@ bounds: the valid 365-byte event text (order 1) cut after 222 bytes (pure truncation), arbitrary prior output buffer: no panic, consumed <= length
//@ outside: prefix lengths that are not an instance of this family (inputs shorter than 204 bytes are rejected up front)
#[kani::proof]
#[kani::unwind(8)]
#[kani::stub(core::panic::Location::caller, stub_caller)]
fn c03_event_prefix_o1_222() {
    event_prefix_at(EV_T1_O1, 222);
}

//@ harness: c03_event_prefix_o1_226
//@ tier: thorough
//@ group: event_prefix
//@ timeout: 1500
//@ mem: 14
//@ covers: none
//@ unwindset: read_sig=66; read_id=34; read_pubkey=34; read_hex=66; memcmp.0=34; event_outlen_at=400; event_prefix_at=400; read_u64=22; read_kind=8; burn_string=12; eat_whitespace=6; json_unescape=8; memchr=12; parse_json_event=10
//@ encodes: Event::from_json, parse_json_event and every reader it calls
//@ bounds: the valid 365-byte event text (order 1) cut after 226 bytes (pure truncation), arbitrary prior output buffer: no panic, consumed <= length
//@ outside: prefix lengths that are not an instance of this family (inputs shorter than 204 bytes are rejected up front)
#[kani::proof]
#[kani::unwind(8)]
#[kani::stub(core::panic::Location::caller, stub_caller)]
fn c03_event_prefix_o1_226() {
    event_prefix_at(EV_T1_O1, 226);
}

//@ harness: c03_event_prefix_o1_230
//@ tier: thorough
//@ group: event_prefix
//@ timeout: 1500
//@ mem: 14
//@ covers: none
//@ unwindset: read_sig=66; read_id=34; read_pubkey=34; read_hex=66; memcmp.0=34; event_outlen_at=400; event_prefix_at=400; read_u64=22; read_kind=8; burn_string=12; eat_whitespace=6; json_unescape=8; memchr=12; parse_json_event=10
//@ encodes: Event::from_json, parse_json_event and every reader it calls
//@ bounds: the valid 365-byte event text (order 1) cut after 230 bytes (pure truncation), arbitrary prior output buffer: no panic, consumed <= length
//@ outside: prefix lengths that are not an instance of this family (inputs shorter than 204 bytes are rejected up front)
#[kani::proof]
#[kani::unwind(8)]
#[kani::stub(core::panic::Location::caller, stub_caller)]
fn c03_event_prefix_o1_230() {
    event_prefix_at(EV_T1_O1, 230);
}

//@ harness: c03_event_prefix_o1_253
//@ tier: thorough
//@ group: event_prefix
//@ timeout: 1500
//@ mem: 14
//@ covers: none
//@ unwindset: read_sig=66; read_id=34; read_pubkey=34; read_hex=66; memcmp.0=34; event_outlen_at=400; event_prefix_at=400; read_u64=22; read_kind=8; burn_string=12; eat_whitespace=6; json_unescape=8; memchr=12; parse_json_event=10
//@ encodes: Event::from_json, parse_json_event and every reader it calls
//@ bounds: the valid 365-byte event text (order 1) cut after 253 bytes (pure truncation), arbitrary prior output buffer: no panic, consumed <= length
//@ outside: prefix lengths that are not an instance of this family (inputs shorter than 204 bytes are rejected up front)
#[kani::proof]
#[kani::unwind(8)]
#[kani::stub(core::panic::Location::caller, stub_caller)]
fn c03_event_prefix_o1_253() {
    event_prefix_at(EV_T1_O1, 253);
}

//@ harness: c03_event_prefix_o1_254
//@ tier: thorough
//@ group: event_prefix
//@ timeout: 1500
//@ mem: 14
//@ covers: none
//@ unwindset: read_sig=66; read_id=34; read_pubkey=34; read_hex=66; memcmp.0=34; event_outlen_at=400; event_prefix_at=400; read_u64=22; read_kind=8; burn_string=12; eat_whitespace=6; json_unescape=8; memchr=12; parse_json_event=10
//@ encodes: Event::from_json, parse_json_event and every reader it calls
//@ bounds: the valid 365-byte event text (order 1) cut after 254 bytes (pure truncation), arbitrary prior output buffer: no panic, consumed <= length
//@ outside: prefix lengths that are not an instance of this family (inputs shorter than 204 bytes are rejected up front)
#[kani::proof]
#[kani::unwind(8)]
#[kani::stub(core::panic::Location::caller, stub_caller)]
fn c03_event_prefix_o1_254() {
    event_prefix_at(EV_T1_O1, 254);
}

//@ harness: c03_event_prefix_o1_260
//@ tier: thorough
//@ group: event_prefix
//@ timeout: 1500
//@ mem: 14
//@ covers: none
//@ unwindset: read_sig=66; read_id=34; read_pubkey=34; read_hex=66; memcmp.0=34; event_outlen_at=400; event_prefix_at=400; read_u64=22; read_kind=8; burn_string=12; eat_whitespace=6; json_unescape=8; memchr=12; parse_json_event=10
//@ encodes: Event::from_json, parse_json_event and every reader it calls
//@ bounds: the valid 365-byte event text (order 1) cut after 260 bytes (pure truncation), arbitrary prior output buffer: no panic, consumed <= length
//@ outside: prefix lengths that are not an instance of this family (inputs shorter than 204 bytes are rejected up front)
#[kani::proof]
#[kani::unwind(8)]
#[kani::stub(core::panic::Location::caller, stub_caller)]
fn c03_event_prefix_o1_260() {
    event_prefix_at(EV_T1_O1, 260);
}

//@ harness: c03_event_prefix_o1_300
//@ tier: thorough
//@ group: event_prefix
//@ timeout: 1500
//@ mem: 14
//@ covers: none
//@ unwindset: read_sig=66; read_id=34; read_pubkey=34; read_hex=66; memcmp.0=34; event_outlen_at=400; event_prefix_at=400; read_u64=22; read_kind=8; burn_string=12; eat_whitespace=6; json_unescape=8; memchr=12; parse_json_event=10
//@ encodes: Event::from_json, parse_json_event and every reader it calls
//@ bounds: the valid 365-byte event text (order 1) cut after 300 bytes (pure truncation), arbitrary prior output buffer: no panic, consumed <= length
//@ outside: prefix lengths that are not an instance of this family (inputs shorter than 204 bytes are rejected up front)
#[kani::proof]
#[kani::unwind(8)]
#[kani::stub(core::panic::Location::caller, stub_caller)]
fn c03_event_prefix_o1_300() {
    event_prefix_at(EV_T1_O1, 300);
}

//@ harness: c03_event_prefix_o1_321
//@ tier: thorough
//@ group: event_prefix
//@ timeout: 1500
//@ mem: 14
//@ covers: none
//@ unwindset: read_sig=66; read_id=34; read_pubkey=34; read_hex=66; memcmp.0=34; event_outlen_at=400; event_prefix_at=400; read_u64=22; read_kind=8; burn_string=12; eat_whitespace=6; json_unescape=8; memchr=12; parse_json_event=10
//@ encodes: Event::from_json, parse_json_event and every reader it calls
//@ bounds: the valid 365-byte event text (order 1) cut after 321 bytes (pure truncation), arbitrary prior output buffer: no panic, consumed <= length
//@ outside: prefix lengths that are not an instance of this family (inputs shorter than 204 bytes are rejected up front)
#[kani::proof]
#[kani::unwind(8)]
#[kani::stub(core::panic::Location::caller, stub_caller)]
fn c03_event_prefix_o1_321() {
    event_prefix_at(EV_T1_O1, 321);
}

//@ harness: c03_event_prefix_o1_325
//@ tier: thorough
//@ group: event_prefix
//@ timeout: 1500
//@ mem: 14
//@ covers: none
//@ unwindset: read_sig=66; read_id=34; read_pubkey=34; read_hex=66; memcmp.0=34; event_outlen_at=400; event_prefix_at=400; read_u64=22; read_kind=8; burn_string=12; eat_whitespace=6; json_unescape=8; memchr=12; parse_json_event=10
//@ encodes: Event::from_json, parse_json_event and every reader it calls
//@ bounds: the valid 365-byte event text (order 1) cut after 325 bytes (pure truncation), arbitrary prior output buffer: no panic, consumed <= length
//@ outside: prefix lengths that are not an instance of this family (inputs shorter than 204 bytes are rejected up front)
#[kani::proof]
#[kani::unwind(8)]
#[kani::stub(core::panic::Location::caller, stub_caller)]
fn c03_event_prefix_o1_325() {
    event_prefix_at(EV_T1_O1, 325);
}

//@ harness: c03_event_prefix_o1_330
//@ tier: thorough
//@ group: event_prefix
//@ timeout: 1500
//@ mem: 14
//@ covers: none
//@ unwindset: read_sig=66; read_id=34; read_pubkey=34; read_hex=66; memcmp.0=34; event_outlen_at=400; event_prefix_at=400; read_u64=22; read_kind=8; burn_string=12; eat_whitespace=6; json_unescape=8; memchr=12; parse_json_event=10
//@ encodes: Event::from_json, parse_json_event and every reader it calls
//@ bounds: the valid 365-byte event text (order 1) cut after 330 bytes (pure truncation), arbitrary prior output buffer: no panic, consumed <= length
//@ outside: prefix lengths that are not an instance of this family (inputs shorter than 204 bytes are rejected up front)
#[kani::proof]
#[kani::unwind(8)]
#[kani::stub(core::panic::Location::caller, stub_caller)]
fn c03_event_prefix_o1_330() {
    event_prefix_at(EV_T1_O1, 330);
}

//@ harness: c03_event_prefix_o1_336
//@ tier: thorough
//@ group: event_prefix
//@ timeout: 1500
//@ mem: 14
//@ covers: none
//@ unwindset: read_sig=66; read_id=34; read_pubkey=34; read_hex=66; memcmp.0=34; event_outlen_at=400; event_prefix_at=400; read_u64=22; read_kind=8; burn_string=12; eat_whitespace=6; json_unescape=8; memchr=12; parse_json_event=10
//@ encodes: Event::from_json, parse_json_event and every reader it calls
//@ bounds: the valid 365-byte event text (order 1) cut after 336 bytes (pure truncation), arbitrary prior output buffer: no panic, consumed <= length
//@ outside: prefix lengths that are not an instance of this family (inputs shorter than 204 bytes are rejected up front)
#[kani::proof]
#[kani::unwind(8)]
#[kani::stub(core::panic::Location::caller, stub_caller)]
fn c03_event_prefix_o1_336() {
    event_prefix_at(EV_T1_O1, 336);
}

//@ harness: c03_event_prefix_o1_337
//@ tier: thorough
//@ group: event_prefix
//@ timeout: 1500
//@ mem: 14
//@ covers: none
//@ unwindset: read_sig=66; read_id=34; read_pubkey=34; read_hex=66; memcmp.0=34; event_outlen_at=400; event_prefix_at=400; read_u64=22; read_kind=8; burn_string=12; eat_whitespace=6; json_unescape=8; memchr=12; parse_json_event=10
//@ encodes: Event::from_json, parse_json_event and every reader it calls
//@ bounds: the valid 365-byte event text (order 1) cut after 337 bytes (pure truncation), arbitrary prior output buffer: no panic, consumed <= length
//@ outside: prefix lengths that are not an instance of this family (inputs shorter than 204 bytes are rejected up front)
#[kani::proof]
#[kani::unwind(8)]
#[kani::stub(core::panic::Location::caller, stub_caller)]
fn c03_event_prefix_o1_337() {
    event_prefix_at(EV_T1_O1, 337);
}

//@ harness: c03_event_prefix_o1_340
//@ tier: thorough
//@ group: event_prefix
//@ timeout: 1500
//@ mem: 14
//@ covers: none
//@ unwindset: read_sig=66; read_id=34; read_pubkey=34; read_hex=66; memcmp.0=34; event_outlen_at=400; event_prefix_at=400; read_u64=22; read_kind=8; burn_string=12; eat_whitespace=6; json_unescape=8; memchr=12; parse_json_event=10
//@ encodes: Event::from_json, parse_json_event and every reader it calls
//@ bounds: the valid 365-byte event text (order 1) cut after 340 bytes (pure truncation), arbitrary prior output buffer: no panic, consumed <= length
//@ outside: prefix lengths that are not an instance of this family (inputs shorter than 204 bytes are rejected up front)
#[kani::proof]
#[kani::unwind(8)]
#[kani::stub(core::panic::Location::caller, stub_caller)]
fn c03_event_prefix_o1_340() {
    event_prefix_at(EV_T1_O1, 340);
}

//@ harness: c03_event_prefix_o1_345
//@ tier: thorough
//@ group: event_prefix
//@ timeout: 1500
//@ mem: 14
//@ covers: none
//@ unwindset: read_sig=66; read_id=34; read_pubkey=34; read_hex=66; memcmp.0=34; event_outlen_at=400; event_prefix_at=400; read_u64=22; read_kind=8; burn_string=12; eat_whitespace=6; json_unescape=8; memchr=12; parse_json_event=10
//@ encodes: Event::from_json, parse_json_event and every reader it calls
//@ bounds: the valid 365-byte event text (order 1) cut after 345 bytes (pure truncation), arbitrary prior output buffer: no panic, consumed <= length
//@ outside: prefix lengths that are not an instance of this family (inputs shorter than 204 bytes are rejected up front)
#[kani::proof]
#[kani::unwind(8)]
#[kani::stub(core::panic::Location::caller, stub_caller)]
fn c03_event_prefix_o1_345() {
    event_prefix_at(EV_T1_O1, 345);
}

//@ harness: c03_event_prefix_o1_349
//@ tier: thorough
//@ group: event_prefix
//@ timeout: 1500
//@ mem: 14
//@ covers: none
//@ unwindset: read_sig=66; read_id=34; read_pubkey=34; read_hex=66; memcmp.0=34; event_outlen_at=400; event_prefix_at=400; read_u64=22; read_kind=8; burn_string=12; eat_whitespace=6; json_unescape=8; memchr=12; parse_json_event=10
//@ encodes: Event::from_json, parse_json_event and every reader it calls
//@ bounds: the valid 365-byte event text (order 1) cut after 349 bytes (pure truncation), arbitrary prior output buffer: no panic, consumed <= length
//@ outside: prefix lengths that are not an instance of this family (inputs shorter than 204 bytes are rejected up front)
#[kani::proof]
#[kani::unwind(8)]
#[kani::stub(core::panic::Location::caller, stub_caller)]
fn c03_event_prefix_o1_349() {
    event_prefix_at(EV_T1_O1, 349);
}

//@ harness: c03_event_prefix_o1_350
//@ tier: thorough
//@ group: event_prefix
//@ timeout: 1500
//@ mem: 14
//@ covers: none
//@ unwindset: read_sig=66; read_id=34; read_pubkey=34; read_hex=66; memcmp.0=34; event_outlen_at=400; event_prefix_at=400; read_u64=22; read_kind=8; burn_string=12; eat_whitespace=6; json_unescape=8; memchr=12; parse_json_event=10
//@ encodes: Event::from_json, parse_json_event and every reader it calls
//@ bounds: the valid 365-byte event text (order 1) cut after 350 bytes (pure truncation), arbitrary prior output buffer: no panic, consumed <= length
//@ outside: prefix lengths that are not an instance of this family (inputs shorter than 204 bytes are rejected up front)
#[kani::proof]
#[kani::unwind(8)]
#[kani::stub(core::panic::Location::caller, stub_caller)]
fn c03_event_prefix_o1_350() {
    event_prefix_at(EV_T1_O1, 350);
}

//@ harness: c03_event_prefix_o1_355
//@ tier: thorough
//@ group: event_prefix
//@ timeout: 1500
//@ mem: 14
//@ covers: none
//@ unwindset: read_sig=66; read_id=34; read_pubkey=34; read_hex=66; memcmp.0=34; event_outlen_at=400; event_prefix_at=400; read_u64=22; read_kind=8; burn_string=12; eat_whitespace=6; json_unescape=8; memchr=12; parse_json_event=10
//@ encodes: Event::from_json, parse_json_event and every reader it calls
//@ bounds: the valid 365-byte event text (order 1) cut after 355 bytes (pure truncation), arbitrary prior output buffer: no panic, consumed <= length
//@ outside: prefix lengths that are not an instance of this family (inputs shorter than 204 bytes are rejected up front)
#[kani::proof]
#[kani::unwind(8)]
#[kani::stub(core::panic::Location::caller, stub_caller)]
fn c03_event_prefix_o1_355() {
    event_prefix_at(EV_T1_O1, 355);
}

//@ harness: c03_event_prefix_o1_356
//@ tier: thorough
//@ group: event_prefix
//@ timeout: 1500
//@ mem: 14
//@ covers: none
//@ unwindset: read_sig=66; read_id=34; read_pubkey=34; read_hex=66; memcmp.0=34; event_outlen_at=400; event_prefix_at=400; read_u64=22; read_kind=8; burn_string=12; eat_whitespace=6; json_unescape=8; memchr=12; parse_json_event=10
//@ encodes: Event::from_json, parse_json_event and every reader it calls
//@ bounds: the valid 365-byte event text (order 1) cut after 356 bytes (pure truncation), arbitrary prior output buffer: no panic, consumed <= length
//@ outside: prefix lengths that are not an instance of this family (inputs shorter than 204 bytes are rejected up front)
#[kani::proof]
#[kani::unwind(8)]
#[kani::stub(core::panic::Location::caller, stub_caller)]
fn c03_event_prefix_o1_356() {
    event_prefix_at(EV_T1_O1, 356);
}

//@ harness: c03_event_prefix_o1_360
//@ tier: thorough
//@ group: event_prefix
//@ timeout: 1500
//@ mem: 14
//@ covers: none
//@ unwindset: read_sig=66; read_id=34; read_pubkey=34; read_hex=66; memcmp.0=34; event_outlen_at=400; event_prefix_at=400; read_u64=22; read_kind=8; burn_string=12; eat_whitespace=6; json_unescape=8; memchr=12; parse_json_event=10
//@ encodes: Event::from_json, parse_json_event and every reader it calls
//@ bounds: the valid 365-byte event text (order 1) cut after 360 bytes (pure truncation), arbitrary prior output buffer: no panic, consumed <= length
//@ outside: prefix lengths that are not an instance of this family (inputs shorter than 204 bytes are rejected up front)
#[kani::proof]
#[kani::unwind(8)]
#[kani::stub(core::panic::Location::caller, stub_caller)]
fn c03_event_prefix_o1_360() {
    event_prefix_at(EV_T1_O1, 360);
}

//@ harness: c03_event_prefix_o1_362
//@ tier: thorough
//@ group: event_prefix
//@ timeout: 1500
//@ mem: 14
//@ covers: none
//@ unwindset: read_sig=66; read_id=34; read_pubkey=34; read_hex=66; memcmp.0=34; event_outlen_at=400; event_prefix_at=400; read_u64=22; read_kind=8; burn_string=12; eat_whitespace=6; json_unescape=8; memchr=12; parse_json_event=10
//@ encodes: Event::from_json, parse_json_event and every reader it calls
//@ bounds: the valid 365-byte event text (order 1) cut after 362 bytes (pure truncation), arbitrary prior output buffer: no panic, consumed <= length
//@ outside: prefix lengths that are not an instance of this family (inputs shorter than 204 bytes are rejected up front)
#[kani::proof]
#[kani::unwind(8)]
#[kani::stub(core::panic::Location::caller, stub_caller)]
fn c03_event_prefix_o1_362() {
    event_prefix_at(EV_T1_O1, 362);
}

//@ harness: c03_event_prefix_o1_363
//@ tier: thorough
//@ group: event_prefix
//@ timeout: 1500
//@ mem: 14
//@ covers: none
//@ unwindset: read_sig=66; read_id=34; read_pubkey=34; read_hex=66; memcmp.0=34; event_outlen_at=400; event_prefix_at=400; read_u64=22; read_kind=8; burn_string=12; eat_whitespace=6; json_unescape=8; memchr=12; parse_json_event=10
//@ encodes: Event::from_json, parse_json_event and every reader it calls
//@ bounds: the valid 365-byte event text (order 1) cut after 363 bytes (pure truncation), arbitrary prior output buffer: no panic, consumed <= length
//@ outside: prefix lengths that are not an instance of this family (inputs shorter than 204 bytes are rejected up front)
#[kani::proof]
#[kani::unwind(8)]
#[kani::stub(core::panic::Location::caller, stub_caller)]
fn c03_event_prefix_o1_363() {
    event_prefix_at(EV_T1_O1, 363);
}

//@ harness: c03_event_prefix_o1_364
//@ tier: thorough
//@ group: event_prefix
//@ timeout: 1500
//@ mem: 14
//@ covers: none
//@ unwindset: read_sig=66; read_id=34; read_pubkey=34; read_hex=66; memcmp.0=34; event_outlen_at=400; event_prefix_at=400; read_u64=22; read_kind=8; burn_string=12; eat_whitespace=6; json_unescape=8; memchr=12; parse_json_event=10
//@ encodes: Event::from_json, parse_json_event and every reader it calls
//@ bounds: the valid 365-byte event text (order 1) cut after 364 bytes (pure truncation), arbitrary prior output buffer: no panic, consumed <= length
//@ outside: prefix lengths that are not an instance of this family (inputs shorter than 204 bytes are rejected up front)
#[kani::proof]
#[kani::unwind(8)]
#[kani::stub(core::panic::Location::caller, stub_caller)]
fn c03_event_prefix_o1_364() {
    event_prefix_at(EV_T1_O1, 364);
}

//@ harness: c03_event_prefix_o1_365
//@ tier: thorough
//@ group: event_prefix
//@ timeout: 1500
//@ mem: 14
//@ covers: none
//@ unwindset: read_sig=66; read_id=34; read_pubkey=34; read_hex=66; memcmp.0=34; event_outlen_at=400; event_prefix_at=400; read_u64=22; read_kind=8; burn_string=12; eat_whitespace=6; json_unescape=8; memchr=12; parse_json_event=10
//@ encodes: Event::from_json, parse_json_event and every reader it calls
//@ bounds: the valid 365-byte event text (order 1) cut after 365 bytes (pure truncation), arbitrary prior output buffer: no panic, consumed <= length
//@ outside: prefix lengths that are not an instance of this family (inputs shorter than 204 bytes are rejected up front)
#[kani::proof]
#[kani::unwind(8)]
#[kani::stub(core::panic::Location::caller, stub_caller)]
fn c03_event_prefix_o1_365() {
    event_prefix_at(EV_T1_O1, 365);
}

//@ harness: c03_event_prefix_o2_204
//@ tier: thorough
//@ group: event_prefix
//@ timeout: 1500
//@ mem: 14
//@ covers: none
//@ unwindset: read_sig=66; read_id=34; read_pubkey=34; read_hex=66; memcmp.0=34; event_outlen_at=400; event_prefix_at=400; read_u64=22; read_kind=8; burn_string=12; eat_whitespace=6; json_unescape=8; memchr=12; parse_json_event=10
//@ encodes: Event::from_json, parse_json_event and every reader it calls
//@ bounds: the valid 365-byte event text (order 2: content before tags) cut after 204 bytes (pure truncation), arbitrary prior output buffer: no panic, consumed <= length
//@ outside: prefix lengths that are not an instance of this family (inputs shorter than 204 bytes are rejected up front)
#[kani::proof]
#[kani::unwind(8)]
#[kani::stub(core::panic::Location::caller, stub_caller)]
fn c03_event_prefix_o2_204() {
    event_prefix_at(EV_T1_O2, 204);
}

//@ harness: c03_event_prefix_o2_205
//@ tier: thorough
//@ group: event_prefix
//@ timeout: 1500
//@ mem: 14
//@ covers: none
//@ unwindset: read_sig=66; read_id=34; read_pubkey=34; read_hex=66; memcmp.0=34; event_outlen_at=400; event_prefix_at=400; read_u64=22; read_kind=8; burn_string=12; eat_whitespace=6; json_unescape=8; memchr=12; parse_json_event=10
//@ encodes: Event::from_json, parse_json_event and every reader it calls
//@ bounds: the valid 365-byte event text (order 2: content before tags) cut after 205 bytes (pure truncation), arbitrary prior output buffer: no panic, consumed <= length
//@ outside: prefix lengths that are not an instance of this family (inputs shorter than 204 bytes are rejected up front)
#[kani::proof]
#[kani::unwind(8)]
#[kani::stub(core::panic::Location::caller, stub_caller)]
fn c03_event_prefix_o2_205() {
    event_prefix_at(EV_T1_O2, 205);
}

//@ harness: c03_event_prefix_o2_210
//@ tier: thorough
//@ group: event_prefix
//@ timeout: 1500
//@ mem: 14
//@ covers: none
//@ unwindset: read_sig=66; read_id=34; read_pubkey=34; read_hex=66; memcmp.0=34; event_outlen_at=400; event_prefix_at=400; read_u64=22; read_kind=8; burn_string=12; eat_whitespace=6; json_unescape=8; memchr=12; parse_json_event=10
//@ encodes: Event::from_json, parse_json_event and every reader it calls
//@ bounds: the valid 365-byte event text (order 2: content before tags) cut after 210 bytes (pure truncation), arbitrary prior output buffer: no panic, consumed <= length
//@ outside: prefix lengths that are not an instance of this family (inputs shorter than 204 bytes are rejected up front)
#[kani::proof]
#[kani::unwind(8)]
#[kani::stub(core::panic::Location::caller, stub_caller)]
fn c03_event_prefix_o2_210() {
    event_prefix_at(EV_T1_O2, 210);
}

//@ harness: c03_event_prefix_o2_222
//@ tier: thorough
//@ group: event_prefix
//@ timeout: 1500
//@ mem: 14
//@ covers: none
//@ unwindset: read_sig=66; read_id=34; read_pubkey=34; read_hex=66; memcmp.0=34; event_outlen_at=400; event_prefix_at=400; read_u64=22; read_kind=8; burn_string=12; eat_whitespace=6; json_unescape=8; memchr=12; parse_json_event=10
//@ encodes: Event::from_json, parse_json_event and every reader it calls
//@ bounds: the valid 365-byte event text (order 2: content before tags) cut after 222 bytes (pure truncation), arbitrary prior output buffer: no panic, consumed <= length
//@ outside: prefix lengths that are not an instance of this family (inputs shorter than 204 bytes are rejected up front)
#[kani::proof]
#[kani::unwind(8)]
#[kani::stub(core::panic::Location::caller, stub_caller)]
fn c03_event_prefix_o2_222() {
    event_prefix_at(EV_T1_O2, 222);
}

//@ harness: c03_event_prefix_o2_226
//@ tier: thorough
//@ group: event_prefix
//@ timeout: 1500
//@ mem: 14
//@ covers: none
//@ unwindset: read_sig=66; read_id=34; read_pubkey=34; read_hex=66; memcmp.0=34; event_outlen_at=400; event_prefix_at=400; read_u64=22; read_kind=8; burn_string=12; eat_whitespace=6; json_unescape=8; memchr=12; parse_json_event=10
//@ encodes: Event::from_json, parse_json_event and every reader it calls
//@ bounds: the valid 365-byte event text (order 2: content before tags) cut after 226 bytes (pure truncation), arbitrary prior output buffer: no panic, consumed <= length
//@ outside: prefix lengths that are not an instance of this family (inputs shorter than 204 bytes are rejected up front)
#[kani::proof]
#[kani::unwind(8)]
#[kani::stub(core::panic::Location::caller, stub_caller)]
fn c03_event_prefix_o2_226() {
    event_prefix_at(EV_T1_O2, 226);
}

//@ harness: c03_event_prefix_o2_230
//@ tier: quick
//@ timeout: 1500
//@ mem: 14
//@ covers: none
//@ unwindset: read_sig=66; read_id=34; read_pubkey=34; read_hex=66; memcmp.0=34; event_outlen_at=400; event_prefix_at=400; read_u64=22; read_kind=8; burn_string=12; eat_whitespace=6; json_unescape=8; memchr=12; parse_json_event=10
//@ encodes: Event::from_json, parse_json_event and every reader it calls
//@ bounds: the valid 365-byte event text (order 2: content before tags) cut after 230 bytes (pure truncation), arbitrary prior output buffer: no panic, consumed <= length
//@ outside: prefix lengths that are not an instance of this family (inputs shorter than 204 bytes are rejected up front)
#[kani::proof]
#[kani::unwind(8)]
#[kani::stub(core::panic::Location::caller, stub_caller)]
fn c03_event_prefix_o2_230() {
    event_prefix_at(EV_T1_O2, 230);
}

//@ harness: c03_event_prefix_o2_253
//@ tier: thorough
//@ group: event_prefix
//@ timeout: 1500
//@ mem: 14
//@ covers: none
//@ unwindset: read_sig=66; read_id=34; read_pubkey=34; read_hex=66; memcmp.0=34; event_outlen_at=400; event_prefix_at=400; read_u64=22; read_kind=8; burn_string=12; eat_whitespace=6; json_unescape=8; memchr=12; parse_json_event=10
//@ encodes: Event::from_json, parse_json_event and every reader it calls
//@ bounds: the valid 365-byte event text (order 2: content before tags) cut after 253 bytes (pure truncation), arbitrary prior output buffer: no panic, consumed <= length
//@ outside: prefix lengths that are not an instance of this family (inputs shorter than 204 bytes are rejected up front)
#[kani::proof]
#[kani::unwind(8)]
#[kani::stub(core::panic::Location::caller, stub_caller)]
fn c03_event_prefix_o2_253() {
    event_prefix_at(EV_T1_O2, 253);
}

//@ harness: c03_event_prefix_o2_254
//@ tier: thorough
//@ group: event_prefix
//@ timeout: 1500
//@ mem: 14
//@ covers: none
//@ unwindset: read_sig=66; read_id=34; read_pubkey=34; read_hex=66; memcmp.0=34; event_outlen_at=400; event_prefix_at=400; read_u64=22; read_kind=8; burn_string=12; eat_whitespace=6; json_unescape=8; memchr=12; parse_json_event=10
//@ encodes: Event::from_json, parse_json_event and every reader it calls
//@ bounds: the valid 365-byte event text (order 2: content before tags) cut after 254 bytes (pure truncation), arbitrary prior output buffer: no panic, consumed <= length
//@ outside: prefix lengths that are not an instance of this family (inputs shorter than 204 bytes are rejected up front)
#[kani::proof]
#[kani::unwind(8)]
#[kani::stub(core::panic::Location::caller, stub_caller)]
fn c03_event_prefix_o2_254() {
    event_prefix_at(EV_T1_O2, 254);
}

//@ harness: c03_event_prefix_o2_260
//@ tier: thorough
//@ group: event_prefix
//@ timeout: 1500
//@ mem: 14
//@ covers: none
//@ unwindset: read_sig=66; read_id=34; read_pubkey=34; read_hex=66; memcmp.0=34; event_outlen_at=400; event_prefix_at=400; read_u64=22; read_kind=8; burn_string=12; eat_whitespace=6; json_unescape=8; memchr=12; parse_json_event=10
//@ encodes: Event::from_json, parse_json_event and every reader it calls
//@ bounds: the valid 365-byte event text (order 2: content before tags) cut after 260 bytes (pure truncation), arbitrary prior output buffer: no panic, consumed <= length
//@ outside: prefix lengths that are not an instance of this family (inputs shorter than 204 bytes are rejected up front)
#[kani::proof]
#[kani::unwind(8)]
#[kani::stub(core::panic::Location::caller, stub_caller)]
fn c03_event_prefix_o2_260() {
    event_prefix_at(EV_T1_O2, 260);
}

//@ harness: c03_event_prefix_o2_300
//@ tier: thorough
//@ group: event_prefix
//@ timeout: 1500
//@ mem: 14
//@ covers: none
//@ unwindset: read_sig=66; read_id=34; read_pubkey=34; read_hex=66; memcmp.0=34; event_outlen_at=400; event_prefix_at=400; read_u64=22; read_kind=8; burn_string=12; eat_whitespace=6; json_unescape=8; memchr=12; parse_json_event=10
//@ encodes: Event::from_json, parse_json_event and every reader it calls
//@ bounds: the valid 365-byte event text (order 2: content before tags) cut after 300 bytes (pure truncation), arbitrary prior output buffer: no panic, consumed <= length
//@ outside: prefix lengths that are not an instance of this family (inputs shorter than 204 bytes are rejected up front)
#[kani::proof]
#[kani::unwind(8)]
#[kani::stub(core::panic::Location::caller, stub_caller)]
fn c03_event_prefix_o2_300() {
    event_prefix_at(EV_T1_O2, 300);
}

//@ harness: c03_event_prefix_o2_321
//@ tier: thorough
//@ group: event_prefix
//@ timeout: 1500
//@ mem: 14
//@ covers: none
//@ unwindset: read_sig=66; read_id=34; read_pubkey=34; read_hex=66; memcmp.0=34; event_outlen_at=400; event_prefix_at=400; read_u64=22; read_kind=8; burn_string=12; eat_whitespace=6; json_unescape=8; memchr=12; parse_json_event=10
//@ encodes: Event::from_json, parse_json_event and every reader it calls
//@ bounds: the valid 365-byte event text (order 2: content before tags) cut after 321 bytes (pure truncation), arbitrary prior output buffer: no panic, consumed <= length
//@ outside: prefix lengths that are not an instance of this family (inputs shorter than 204 bytes are rejected up front)
#[kani::proof]
#[kani::unwind(8)]
#[kani::stub(core::panic::Location::caller, stub_caller)]
fn c03_event_prefix_o2_321() {
    event_prefix_at(EV_T1_O2, 321);
}

//@ harness: c03_event_prefix_o2_325
//@ tier: thorough
//@ group: event_prefix
//@ timeout: 1500
//@ mem: 14
//@ covers: none
//@ unwindset: read_sig=66; read_id=34; read_pubkey=34; read_hex=66; memcmp.0=34; event_outlen_at=400; event_prefix_at=400; read_u64=22; read_kind=8; burn_string=12; eat_whitespace=6; json_unescape=8; memchr=12; parse_json_event=10
//@ encodes: Event::from_json, parse_json_event and every reader it calls
//@ bounds: the valid 365-byte event text (order 2: content before tags) cut after 325 bytes (pure truncation), arbitrary prior output buffer: no panic, consumed <= length
//@ outside: prefix lengths that are not an instance of this family (inputs shorter than 204 bytes are rejected up front)
#[kani::proof]
#[kani::unwind(8)]
#[kani::stub(core::panic::Location::caller, stub_caller)]
fn c03_event_prefix_o2_325() {
    event_prefix_at(EV_T1_O2, 325);
}

//@ harness: c03_event_prefix_o2_330
//@ tier: thorough
//@ group: event_prefix
//@ timeout: 1500
//@ mem: 14
//@ covers: none
//@ unwindset: read_sig=66; read_id=34; read_pubkey=34; read_hex=66; memcmp.0=34; event_outlen_at=400; event_prefix_at=400; read_u64=22; read_kind=8; burn_string=12; eat_whitespace=6; json_unescape=8; memchr=12; parse_json_event=10
//@ encodes: Event::from_json, parse_json_event and every reader it calls
//@ bounds: the valid 365-byte event text (order 2: content before tags) cut after 330 bytes (pure truncation), arbitrary prior output buffer: no panic, consumed <= length
//@ outside: prefix lengths that are not an instance of this family (inputs shorter than 204 bytes are rejected up front)
#[kani::proof]
#[kani::unwind(8)]
#[kani::stub(core::panic::Location::caller, stub_caller)]
fn c03_event_prefix_o2_330() {
    event_prefix_at(EV_T1_O2, 330);
}

//@ harness: c03_event_prefix_o2_336
//@ tier: thorough
//@ group: event_prefix
//@ timeout: 1500
//@ mem: 14
//@ covers: none
//@ unwindset: read_sig=66; read_id=34; read_pubkey=34; read_hex=66; memcmp.0=34; event_outlen_at=400; event_prefix_at=400; read_u64=22; read_kind=8; burn_string=12; eat_whitespace=6; json_unescape=8; memchr=12; parse_json_event=10
//@ encodes: Event::from_json, parse_json_event and every reader it calls
//@ bounds: the valid 365-byte event text (order 2: content before tags) cut after 336 bytes (pure truncation), arbitrary prior output buffer: no panic, consumed <= length
//@ outside: prefix lengths that are not an instance of this family (inputs shorter than 204 bytes are rejected up front)
#[kani::proof]
#[kani::unwind(8)]
#[kani::stub(core::panic::Location::caller, stub_caller)]
fn c03_event_prefix_o2_336() {
    event_prefix_at(EV_T1_O2, 336);
}

//@ harness: c03_event_prefix_o2_337
//@ tier: thorough
//@ group: event_prefix
//@ timeout: 1500
//@ mem: 14
//@ covers: none
//@ unwindset: read_sig=66; read_id=34; read_pubkey=34; read_hex=66; memcmp.0=34; event_outlen_at=400; event_prefix_at=400; read_u64=22; read_kind=8; burn_string=12; eat_whitespace=6; json_unescape=8; memchr=12; parse_json_event=10
//@ encodes: Event::from_json, parse_json_event and every reader it calls
//@ bounds: the valid 365-byte event text (order 2: content before tags) cut after 337 bytes (pure truncation), arbitrary prior output buffer: no panic, consumed <= length
//@ outside: prefix lengths that are not an instance of this family (inputs shorter than 204 bytes are rejected up front)
#[kani::proof]
#[kani::unwind(8)]
#[kani::stub(core::panic::Location::caller, stub_caller)]
fn c03_event_prefix_o2_337() {
    event_prefix_at(EV_T1_O2, 337);
}

//@ harness: c03_event_prefix_o2_340
//@ tier: thorough
//@ group: event_prefix
//@ timeout: 1500
//@ mem: 14
//@ covers: none
//@ unwindset: read_sig=66; read_id=34; read_pubkey=34; read_hex=66; memcmp.0=34; event_outlen_at=400; event_prefix_at=400; read_u64=22; read_kind=8; burn_string=12; eat_whitespace=6; json_unescape=8; memchr=12; parse_json_event=10
//@ encodes: Event::from_json, parse_json_event and every reader it calls
//@ bounds: the valid 365-byte event text (order 2: content before tags) cut after 340 bytes (pure truncation), arbitrary prior output buffer: no panic, consumed <= length
//@ outside: prefix lengths that are not an instance of this family (inputs shorter than 204 bytes are rejected up front)
#[kani::proof]
#[kani::unwind(8)]
#[kani::stub(core::panic::Location::caller, stub_caller)]
fn c03_event_prefix_o2_340() {
    event_prefix_at(EV_T1_O2, 340);
}

//@ harness: c03_event_prefix_o2_345
//@ tier: thorough
//@ group: event_prefix
//@ timeout: 1500
//@ mem: 14
//@ covers: none
//@ unwindset: read_sig=66; read_id=34; read_pubkey=34; read_hex=66; memcmp.0=34; event_outlen_at=400; event_prefix_at=400; read_u64=22; read_kind=8; burn_string=12; eat_whitespace=6; json_unescape=8; memchr=12; parse_json_event=10
//@ encodes: Event::from_json, parse_json_event and every reader it calls
//@ bounds: the valid 365-byte event text (order 2: content before tags) cut after 345 bytes (pure truncation), arbitrary prior output buffer: no panic, consumed <= length
//@ outside: prefix lengths that are not an instance of this family (inputs shorter than 204 bytes are rejected up front)
#[kani::proof]
#[kani::unwind(8)]
#[kani::stub(core::panic::Location::caller, stub_caller)]
fn c03_event_prefix_o2_345() {
    event_prefix_at(EV_T1_O2, 345);
}

//@ harness: c03_event_prefix_o2_349
//@ tier: thorough
//@ group: event_prefix
//@ timeout: 1500
//@ mem: 14
//@ covers: none
//@ unwindset: read_sig=66; read_id=34; read_pubkey=34; read_hex=66; memcmp.0=34; event_outlen_at=400; event_prefix_at=400; read_u64=22; read_kind=8; burn_string=12; eat_whitespace=6; json_unescape=8; memchr=12; parse_json_event=10
//@ encodes: Event::from_json, parse_json_event and every reader it calls
//@ bounds: the valid 365-byte event text (order 2: content before tags) cut after 349 bytes (pure truncation), arbitrary prior output buffer: no panic, consumed <= length
//@ outside: prefix lengths that are not an instance of this family (inputs shorter than 204 bytes are rejected up front)
#[kani::proof]
#[kani::unwind(8)]
#[kani::stub(core::panic::Location::caller, stub_caller)]
fn c03_event_prefix_o2_349() {
    event_prefix_at(EV_T1_O2, 349);
}

//@ harness: c03_event_prefix_o2_350
//@ tier: thorough
//@ group: event_prefix
//@ timeout: 1500
//@ mem: 14
//@ covers: none
//@ unwindset: read_sig=66; read_id=34; read_pubkey=34; read_hex=66; memcmp.0=34; event_outlen_at=400; event_prefix_at=400; read_u64=22; read_kind=8; burn_string=12; eat_whitespace=6; json_unescape=8; memchr=12; parse_json_event=10
//@ encodes: Event::from_json, parse_json_event and every reader it calls
//@ bounds: the valid 365-byte event text (order 2: content before tags) cut after 350 bytes (pure truncation), arbitrary prior output buffer: no panic, consumed <= length
//@ outside: prefix lengths that are not an instance of this family (inputs shorter than 204 bytes are rejected up front)
#[kani::proof]
#[kani::unwind(8)]
#[kani::stub(core::panic::Location::caller, stub_caller)]
fn c03_event_prefix_o2_350() {
    event_prefix_at(EV_T1_O2, 350);
}

//@ harness: c03_event_prefix_o2_355
//@ tier: thorough
//@ group: event_prefix
//@ timeout: 1500
//@ mem: 14
//@ covers: none
//@ unwindset: read_sig=66; read_id=34; read_pubkey=34; read_hex=66; memcmp.0=34; event_outlen_at=400; event_prefix_at=400; read_u64=22; read_kind=8; burn_string=12; eat_whitespace=6; json_unescape=8; memchr=12; parse_json_event=10
//@ encodes: Event::from_json, parse_json_event and every reader it calls
//@ bounds: the valid 365-byte event text (order 2: content before tags) cut after 355 bytes (pure truncation), arbitrary prior output buffer: no panic, consumed <= length
//@ outside: prefix lengths that are not an instance of this family (inputs shorter than 204 bytes are rejected up front)
#[kani::proof]
#[kani::unwind(8)]
#[kani::stub(core::panic::Location::caller, stub_caller)]
fn c03_event_prefix_o2_355() {
    event_prefix_at(EV_T1_O2, 355);
}

//@ harness: c03_event_prefix_o2_356
//@ tier: thorough
//@ group: event_prefix
//@ timeout: 1500
//@ mem: 14
//@ covers: none
//@ unwindset: read_sig=66; read_id=34; read_pubkey=34; read_hex=66; memcmp.0=34; event_outlen_at=400; event_prefix_at=400; read_u64=22; read_kind=8; burn_string=12; eat_whitespace=6; json_unescape=8; memchr=12; parse_json_event=10
//@ encodes: Event::from_json, parse_json_event and every reader it calls
//@ bounds: the valid 365-byte event text (order 2: content before tags) cut after 356 bytes (pure truncation), arbitrary prior output buffer: no panic, consumed <= length
//@ outside: prefix lengths that are not an instance of this family (inputs shorter than 204 bytes are rejected up front)
#[kani::proof]
#[kani::unwind(8)]
#[kani::stub(core::panic::Location::caller, stub_caller)]
fn c03_event_prefix_o2_356() {
    event_prefix_at(EV_T1_O2, 356);
}

//@ harness: c03_event_prefix_o2_360
//@ tier: thorough
//@ group: event_prefix
//@ timeout: 1500
//@ mem: 14
//@ covers: none
//@ unwindset: read_sig=66; read_id=34; read_pubkey=34; read_hex=66; memcmp.0=34; event_outlen_at=400; event_prefix_at=400; read_u64=22; read_kind=8; burn_string=12; eat_whitespace=6; json_unescape=8; memchr=12; parse_json_event=10
//@ encodes: Event::from_json, parse_json_event and every reader it calls
//@ bounds: the valid 365-byte event text (order 2: content before tags) cut after 360 bytes (pure truncation), arbitrary prior output buffer: no panic, consumed <= length
//@ outside: prefix lengths that are not an instance of this family (inputs shorter than 204 bytes are rejected up front)
#[kani::proof]
#[kani::unwind(8)]
#[kani::stub(core::panic::Location::caller, stub_caller)]
fn c03_event_prefix_o2_360() {
    event_prefix_at(EV_T1_O2, 360);
}

//@ harness: c03_event_prefix_o2_362
//@ tier: thorough
//@ group: event_prefix
//@ timeout: 1500
//@ mem: 14
//@ covers: none
//@ unwindset: read_sig=66; read_id=34; read_pubkey=34; read_hex=66; memcmp.0=34; event_outlen_at=400; event_prefix_at=400; read_u64=22; read_kind=8; burn_string=12; eat_whitespace=6; json_unescape=8; memchr=12; parse_json_event=10
//@ encodes: Event::from_json, parse_json_event and every reader it calls
//@ bounds: the valid 365-byte event text (order 2: content before tags) cut after 362 bytes (pure truncation), arbitrary prior output buffer: no panic, consumed <= length
//@ outside: prefix lengths that are not an instance of this family (inputs shorter than 204 bytes are rejected up front)
#[kani::proof]
#[kani::unwind(8)]
#[kani::stub(core::panic::Location::caller, stub_caller)]
fn c03_event_prefix_o2_362() {
    event_prefix_at(EV_T1_O2, 362);
}

//@ harness: c03_event_prefix_o2_363
//@ tier: thorough
//@ group: event_prefix
//@ timeout: 1500
//@ mem: 14
//@ covers: none
//@ unwindset: read_sig=66; read_id=34; read_pubkey=34; read_hex=66; memcmp.0=34; event_outlen_at=400; event_prefix_at=400; read_u64=22; read_kind=8; burn_string=12; eat_whitespace=6; json_unescape=8; memchr=12; parse_json_event=10
//@ encodes: Event::from_json, parse_json_event and every reader it calls
//@ bounds: the valid 365-byte event text (order 2: content before tags) cut after 363 bytes (pure truncation), arbitrary prior output buffer: no panic, consumed <= length
//@ outside: prefix lengths that are not an instance of this family (inputs shorter than 204 bytes are rejected up front)
#[kani::proof]
#[kani::unwind(8)]
#[kani::stub(core::panic::Location::caller, stub_caller)]
fn c03_event_prefix_o2_363() {
    event_prefix_at(EV_T1_O2, 363);
}

//@ harness: c03_event_prefix_o2_364
//@ tier: thorough
//@ group: event_prefix
//@ timeout: 1500
//@ mem: 14
//@ covers: none
//@ unwindset: read_sig=66; read_id=34; read_pubkey=34; read_hex=66; memcmp.0=34; event_outlen_at=400; event_prefix_at=400; read_u64=22; read_kind=8; burn_string=12; eat_whitespace=6; json_unescape=8; memchr=12; parse_json_event=10
//@ encodes: Event::from_json, parse_json_event and every reader it calls
//@ bounds: the valid 365-byte event text (order 2: content before tags) cut after 364 bytes (pure truncation), arbitrary prior output buffer: no panic, consumed <= length
//@ outside: prefix lengths that are not an instance of this family (inputs shorter than 204 bytes are rejected up front)
#[kani::proof]
#[kani::unwind(8)]
#[kani::stub(core::panic::Location::caller, stub_caller)]
fn c03_event_prefix_o2_364() {
    event_prefix_at(EV_T1_O2, 364);
}

//@ harness: c03_event_prefix_o2_365
//@ tier: thorough
//@ group: event_prefix
//@ timeout: 1500
//@ mem: 14
//@ covers: none
//@ unwindset: read_sig=66; read_id=34; read_pubkey=34; read_hex=66; memcmp.0=34; event_outlen_at=400; event_prefix_at=400; read_u64=22; read_kind=8; burn_string=12; eat_whitespace=6; json_unescape=8; memchr=12; parse_json_event=10
//@ encodes: Event::from_json, parse_json_event and every reader it calls
//@ bounds: the valid 365-byte event text (order 2: content before tags) cut after 365 bytes (pure truncation), arbitrary prior output buffer: no panic, consumed <= length
//@ outside: prefix lengths that are not an instance of this family (inputs shorter than 204 bytes are rejected up front)
#[kani::proof]
#[kani::unwind(8)]
#[kani::stub(core::panic::Location::caller, stub_caller)]
fn c03_event_prefix_o2_365() {
    event_prefix_at(EV_T1_O2, 365);
}


// ------------------------------------------------ fixed-capacity tag-member table ------

//@ harness: c03_filter_many_hash_members
//@ tier: quick
//@ timeout: 1500
//@ mem: 12
//@ unwindset: memcmp.0=12; burn_string=12; eat_whitespace=6; eat_whitespace_and_commas=6; burn_array=6; json_unescape=8; memchr=12; read_u64=6; read_kind=6; parse_json_filter=120
//@ encodes: Filter::from_json, parse_json_filter (the 52-slot table of tag-member positions, letter test, duplicate bitmap), burn_key_and_value_after_quote
//@ bounds: a filter object with 53 members whose key is # followed by a DIGIT (`"#0":["x"]` ... , keys repeating) and then "kinds":[7] - constant 587-byte text, arbitrary prior buffer: no panic, no out-of-bounds index into the position table; the digit members are not tag members (skipped as unknown), the filter has kinds [7] and no tag constraints
//@ outside: the text is constant; other over-long member lists
#[kani::proof]
#[kani::unwind(8)]
#[kani::stub(core::panic::Location::caller, stub_caller)]
fn c03_filter_many_hash_members() {
    let mut out: [u8; 64] = kani::any();
    match Filter::from_json(FH53, &mut out) {
        Ok((consumed, written, f)) => {
            kani::cover!(true);
            assert!(consumed == FH53.len() && written == f.len());
            assert!(f.num_kinds() == 1 && f.num_ids() == 0 && f.num_authors() == 0);
            match f.tags() {
                Ok(t) => assert!(t.count() == 0),
                Err(e) => {
                    core::mem::forget(e);
                    panic!("tags")
                }
            }
        }
        Err(e) => {
            core::mem::forget(e);
            panic!("valid filter text with unknown members rejected");
        }
    }
}
