//@@ property: C05
//@@ crate: db
//@@ mount: pocket-db/src/lmdb/mod.rs
//@@ also: db_lmdb_helper.rs@pocket-db/src/lmdb/mod.rs
// Index-key kernels: ordering of the keys that drive "newest first", and separation of
// the (letter, value) prefixes that drive which events a tag scan can see.
use super::*;
include!("common_db.rs");

fn lt(a: &[u8], b: &[u8]) -> bool {
    // lexicographic, as LMDB's default comparator (memcmp, then length)
    let n = if a.len() < b.len() { a.len() } else { b.len() };
    let mut i = 0;
    while i < n {
        if a[i] != b[i] {
            return a[i] < b[i];
        }
        i += 1;
    }
    a.len() < b.len()
}

//@ harness: c05_key_order_ci_ac_akc
//@ serves: C09
//@ tier: quick
//@ timeout: 900
//@ mem: 12
//@ unwindset: lt=80; memcmp.0=80; c05_key_akc=40
//@ cbmc: --max-field-sensitivity-array-size 300
//@ encodes: Lmdb::key_ci_index, Lmdb::key_ac_index, Lmdb::key_akc_index
//@ bounds: two arbitrary (created_at, id) pairs under the same arbitrary author and kind: key1 < key2 (byte-lexicographic, LMDB's order) iff t1 > t2, or t1 = t2 and id1 < id2 - i.e. a forward scan is newest first with id as tie-break; keys are equal only for equal (t, id)
#[kani::proof]
#[kani::unwind(6)]
#[kani::stub(core::panic::Location::caller, stub_caller)]
fn c05_key_order_ci_ac_akc() {
    let t1: u64 = kani::any();
    let t2: u64 = kani::any();
    let i1: [u8; 32] = kani::any();
    let i2: [u8; 32] = kani::any();
    let au: [u8; 32] = kani::any();
    let k: u16 = kani::any();
    let spec = t1 > t2 || (t1 == t2 && lt(&i1, &i2));
    kani::cover!(spec && t1 == t2);
    let a = Lmdb::key_ci_index(Time::from_u64(t1), Id::from_bytes(i1));
    let b = Lmdb::key_ci_index(Time::from_u64(t2), Id::from_bytes(i2));
    assert!(a.len() == 40 && b.len() == 40);
    assert!(lt(&a, &b) == spec);
    core::mem::forget(a);
    core::mem::forget(b);
    let a = Lmdb::key_ac_index(Pubkey::from_bytes(au), Time::from_u64(t1), Id::from_bytes(i1));
    let b = Lmdb::key_ac_index(Pubkey::from_bytes(au), Time::from_u64(t2), Id::from_bytes(i2));
    assert!(a.len() == 72 && lt(&a, &b) == spec);
    core::mem::forget(a);
    core::mem::forget(b);
    let a = Lmdb::key_akc_index(Pubkey::from_bytes(au), Kind::from_u16(k), Time::from_u64(t1), Id::from_bytes(i1));
    let b = Lmdb::key_akc_index(Pubkey::from_bytes(au), Kind::from_u16(k), Time::from_u64(t2), Id::from_bytes(i2));
    assert!(a.len() == 74 && lt(&a, &b) == spec);
    core::mem::forget(a);
    core::mem::forget(b);
}

//@ harness: c05_key_akc_kind_separation
//@ serves: C09
//@ tier: quick
//@ timeout: 900
//@ mem: 12
//@ unwindset: lt=80; memcmp.0=80; c05_key_akc=40
//@ cbmc: --max-field-sensitivity-array-size 300
//@ encodes: Lmdb::key_akc_index
//@ bounds: arbitrary authors a1, a2, kinds k1, k2, times, ids: the 34-byte (author, kind) prefixes of two akc keys are equal iff author and kind are equal (a scan for one replaceable address never sees another address)
#[kani::proof]
#[kani::unwind(6)]
#[kani::stub(core::panic::Location::caller, stub_caller)]
fn c05_key_akc_kind_separation() {
    let a1: [u8; 32] = kani::any();
    let a2: [u8; 32] = kani::any();
    let k1: u16 = kani::any();
    let k2: u16 = kani::any();
    let x = Lmdb::key_akc_index(Pubkey::from_bytes(a1), Kind::from_u16(k1), Time::from_u64(kani::any()), Id::from_bytes(kani::any()));
    let y = Lmdb::key_akc_index(Pubkey::from_bytes(a2), Kind::from_u16(k2), Time::from_u64(kani::any()), Id::from_bytes(kani::any()));
    let mut same = true;
    let mut i = 0;
    while i < 34 {
        if x[i] != y[i] {
            same = false;
        }
        i += 1;
    }
    kani::cover!(same);
    assert!(same == (a1 == a2 && k1 == k2));
    core::mem::forget(x);
    core::mem::forget(y);
}

// ---------------------------------------------------------------------------
// scan bounds: the *_iter functions over the heed model (one stored key, arbitrary window)
// ---------------------------------------------------------------------------
fn lmdb() -> Lmdb {
    super::verif_db_lmdb_helper::verif_lmdb()
}

macro_rules! iter_bounds {
    ($name:ident, $table:ident, |$l:ident, $au:ident, $kd:ident, $v:ident, $t:ident, $id:ident, $since:ident, $until:ident, $txn:ident| $key:expr, $iter:expr) => {
        #[kani::proof]
        #[kani::unwind(14)]
        #[kani::stub(core::panic::Location::caller, stub_caller)]
        #[kani::stub(std::hash::RandomState::new, stub_random_state)]
        fn $name() {
            let $l = lmdb();
            let tt: u64 = kani::any();
            let idb: [u8; 32] = kani::any();
            let s_: u64 = kani::any();
            let u_: u64 = kani::any();
            let aub: [u8; 32] = kani::any();
            let kdb: u16 = kani::any();
            let vb: [u8; 2] = kani::any();
            let $au = Pubkey::from_bytes(aub);
            let $kd = Kind::from_u16(kdb);
            let $v: &[u8] = &vb[..];
            let $t = Time::from_u64(tt);
            let $id = Id::from_bytes(idb);
            let $since = Time::from_u64(s_);
            let $until = Time::from_u64(u_);
            // one index entry for an event created at t
            {
                let mut wtxn = ok!($l.write_txn());
                let key: Vec<u8> = $key;
                ok!($l.$table.put(&mut wtxn, &key, &77u64));
                ok!(wtxn.commit());
                core::mem::forget(key);
            }
            let $txn = ok!($l.read_txn());
            let found = {
                let mut it = ok!($iter);
                match it.next() {
                    Some(Ok((_k, off))) => {
                        assert!(off == 77);
                        true
                    }
                    Some(Err(e)) => {
                        core::mem::forget(e);
                        panic!("iterator error")
                    }
                    None => false,
                }
            };
            // NIP-01: since <= created_at <= until
            let spec = s_ <= tt && tt <= u_;
            kani::cover!(found && tt == s_);
            kani::cover!(!found);
            // the exclusive end bound key(since, ff..ff) excludes exactly one (t, id) pair that
            // the window should contain: t == since with id == ff..ff (cannot occur for a real
            // SHA-256 id; recorded in DESIGN.md) - everything else must agree
            let mut all_ff = true;
            let mut i = 0;
            while i < 32 {
                if idb[i] != 0xff {
                    all_ff = false;
                }
                i += 1;
            }
            if !(tt == s_ && all_ff) {
                assert!(found == spec);
            }
            core::mem::forget($txn);
            core::mem::forget($l);
        }
    };
}

//@ harness: c05_iter_bounds_ci c05_iter_bounds_ac c05_iter_bounds_akc
//@ tier: quick
//@ timeout: 1500
//@ mem: 14
//@ unwindset: heed::bytes_=260; heed::Table=6; memcmp.0=80; lt=80; c05_iter=40
//@ cbmc: --max-field-sensitivity-array-size 300
//@ encodes: Lmdb::ci_iter, Lmdb::ac_iter, Lmdb::akc_iter, the key builders, heed model range scan
//@ bounds: one index entry for an arbitrary (author, kind, created_at t, id); a scan with arbitrary since/until: the entry is returned iff since <= t <= until (inverted and out-of-range windows included), except for the single pair t == since with id ff..ff
//@ assumes: heed model: range(Included(a), Excluded(b)) yields exactly the keys a <= k < b in byte-lexicographic order
iter_bounds!(c05_iter_bounds_ci, ci_index, |l, au, kd, v, t, id, since, until, txn| Lmdb::key_ci_index(t, id), l.ci_iter(since, until, &txn));
iter_bounds!(c05_iter_bounds_ac, ac_index, |l, au, kd, v, t, id, since, until, txn| Lmdb::key_ac_index(au, t, id), l.ac_iter(au, since, until, &txn));
iter_bounds!(c05_iter_bounds_akc, akc_index, |l, au, kd, v, t, id, since, until, txn| Lmdb::key_akc_index(au, kd, t, id), l.akc_iter(au, kd, since, until, &txn));

//@ harness: c05_iter_bounds_tc c05_iter_bounds_atc c05_iter_bounds_ktc
//@ tier: quick
//@ timeout: 2400
//@ mem: 16
//@ unwindset: heed::bytes_=260; heed::Table=6; memcmp.0=80; lt=80; c05_iter=40; repeat::Repeat=190; Repeat.*try_fold=190
//@ cbmc: --max-field-sensitivity-array-size 300
//@ encodes: Lmdb::tc_iter, Lmdb::atc_iter, Lmdb::ktc_iter, key_tc_index, key_atc_index, key_ktc_index (182-byte value padding)
//@ bounds: as above for the three tag indexes, with letter 'e' and an arbitrary 2-byte tag value
iter_bounds!(c05_iter_bounds_tc, tc_index, |l, au, kd, v, t, id, since, until, txn| Lmdb::key_tc_index(b'e', v, t, id), l.tc_iter(b'e', v, since, until, &txn));
iter_bounds!(c05_iter_bounds_atc, atc_index, |l, au, kd, v, t, id, since, until, txn| Lmdb::key_atc_index(au, b'e', v, t, id), l.atc_iter(au, b'e', v, since, until, &txn));
iter_bounds!(c05_iter_bounds_ktc, ktc_index, |l, au, kd, v, t, id, since, until, txn| Lmdb::key_ktc_index(kd, b'e', v, t, id), l.ktc_iter(kd, b'e', v, since, until, &txn));
