//@@ property: C13
//@@ crate: db
//@@ mount: pocket-db/src/lib.rs
//@@ also: db_lmdb_helper.rs@pocket-db/src/lmdb/mod.rs, es_helper.rs@pocket-db/src/event_store.rs
use crate::*;
include!("common_db.rs");
include!("img.rs");
include!("store_common.rs");

//@ harness: c13_store_event_kill_ordering
//@ tier: quick
//@ timeout: 3000
//@ mem: 20
//@ covers: any
//@ unwindset: put_bytes=80; heed::bytes_=260; heed::Table=6; memcmp.0=70; repeat::Repeat=190; Repeat.*try_fold=190; mmap_append=200; enc_tags=6
//@ cbmc: --max-field-sensitivity-array-size 1100
//@ encodes: Store::store_event (append of the event bytes before the index writes and the commit), EventStore::store_event, Lmdb::index, heed model commit, Store::get_event_by_id
//@ bounds: fresh store; one Store::store_event of an event (kind 1, one tag, arbitrary created_at) killed at an ARBITRARY point of its persistent effects - first/second half of the payload copy, end-marker store, LMDB commit, in whatever order the code performs them; afterwards a lookup by id finds either nothing or the complete, byte-identical event - never an index entry whose bytes are missing
//@ assumes: one program-order sequence of persistent effects (mapping stores survive a kill; the LMDB commit is atomic and takes its place in that sequence)
store_harness!(c13_store_event_kill_ordering, {
    let store = verif_store();
    let t: u64 = kani::any();
    let mut b = [0u8; 170];
    let n = enc_event_img(1, t, &ID_A, &PK_1, &SIG_0, &[&[1, 2]], b"eab", b"", &mut b);
    let crash_at: u32 = kani::any();
    kani::assume(crash_at <= 4);
    unsafe {
        heed::EFFECT_GATE = Some(mmap_append::verif::effect_allowed);
        mmap_append::verif::STEP = 0;
        mmap_append::verif::CRASH_AT = crash_at;
    }
    let r = store.store_event(as_event(&b[..n]));
    core::mem::forget(r);
    // the next process
    unsafe {
        mmap_append::verif::CRASH_AT = u32::MAX;
    }
    kani::cover!(crash_at == 3);
    match store.get_event_by_id(Id::from_bytes(ID_A)) {
        Ok(None) => {}
        Ok(Some(ev)) => {
            assert!(ev.as_bytes().len() == n);
            let k: usize = kani::any();
            kani::assume(k < n);
            assert!(ev.as_bytes()[k] == b[k]);
        }
        Err(e) => {
            core::mem::forget(e);
            panic!("an index entry leads to event bytes that are not in the event map");
        }
    }
    core::mem::forget(store);
});
