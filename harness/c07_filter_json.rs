//@@ property: C07
//@@ crate: types
//@@ mount: pocket-types/src/lib.rs
use crate::{Filter, Id, Kind, Pubkey, Tags, Time};
include!("common.rs");
include!("texts.rs");
include!("jsonsym.rs");
include!("img.rs");

struct FExpect {
    id: [u8; 32],
    pk: [u8; 32],
    kind: u32,
    since: u128,
    until: u128,
    limit: u128,
    tagv: u8,
}

fn digits(t: &mut [u8], at: usize, n: usize) -> u128 {
    let mut v: u128 = 0;
    let mut i = 0;
    while i < n {
        let d = any_digit();
        if i == 0 {
            kani::assume(d != b'0');
        }
        t[at + i] = d;
        v = v * 10 + (d - b'0') as u128;
        i += 1;
    }
    v
}

fn fpatch(t: &mut [u8], idp: usize, pkp: usize, kp: usize, sp: usize, up: usize, lp: usize, tp: usize) -> FExpect {
    let mut e = FExpect { id: ID_BIN, pk: PK_BIN, kind: 0, since: 0, until: 0, limit: 0, tagv: 0 };
    let (a, b) = (any_hex_digit(), any_hex_digit());
    t[idp] = a;
    t[idp + 63] = b;
    e.id[0] = (hex_val(a) << 4) | (e.id[0] & 0x0f);
    e.id[31] = (e.id[31] & 0xf0) | hex_val(b);
    let (a, b) = (any_hex_digit(), any_hex_digit());
    t[pkp] = a;
    t[pkp + 63] = b;
    e.pk[0] = (hex_val(a) << 4) | (e.pk[0] & 0x0f);
    e.pk[31] = (e.pk[31] & 0xf0) | hex_val(b);
    e.kind = digits(t, kp, 5) as u32;
    e.since = digits(t, sp, 10);
    e.until = digits(t, up, 10);
    e.limit = digits(t, lp, 10);
    let v = any_plain();
    t[tp] = v;
    e.tagv = v;
    e
}

fn fcheck(f: &Filter, e: &FExpect) {
    assert!(f.num_ids() == 1 && f.num_authors() == 1 && f.num_kinds() == 2);
    let i: usize = kani::any();
    kani::assume(i < 32);
    assert!(f.ids().next().unwrap().as_slice()[i] == e.id[i]);
    assert!(f.authors().next().unwrap().as_slice()[i] == e.pk[i]);
    let mut k = f.kinds();
    assert!(k.next().unwrap().as_u16() == 1);
    assert!(k.next().unwrap().as_u16() as u32 == e.kind);
    assert!(f.since().as_u64() as u128 == e.since);
    assert!(f.until().as_u64() as u128 == e.until);
    // limit: exact when it fits, saturated (never wrapped) when it does not
    if e.limit <= u32::MAX as u128 {
        assert!(f.limit() as u128 == e.limit);
    } else {
        assert!(f.limit() == u32::MAX);
    }
    let t = f.tags().unwrap();
    assert!(t.count() == 2);
    // tag constraints as a set: {e: [v"b", "c"], P: []}
    let (ie, ip) = if t.get_string(0, 0).unwrap()[0] == b'e' { (0, 1) } else { (1, 0) };
    let n = t.get_string(ie, 0).unwrap();
    assert!(n.len() == 1 && n[0] == b'e');
    let v0 = t.get_string(ie, 1).unwrap();
    assert!(v0.len() == 2 && v0[0] == e.tagv && v0[1] == b'b');
    let v1 = t.get_string(ie, 2).unwrap();
    assert!(v1.len() == 1 && v1[0] == b'c');
    assert!(t.get_string(ie, 3).is_none());
    let p = t.get_string(ip, 0).unwrap();
    assert!(p.len() == 1 && p[0] == b'P');
    assert!(t.get_string(ip, 1).is_none());
}

macro_rules! filter_layout {
    ($name:ident, $T:ident, $ID:ident, $PK:ident, $K:ident, $S:ident, $U:ident, $L:ident, $TV:ident, $end:expr) => {
        #[kani::proof]
        #[kani::unwind(32)]
        #[kani::stub(core::panic::Location::caller, stub_caller)]
        fn $name() {
            const N: usize = $T.len();
            let mut t = [0u8; N + 2];
            t[..N].copy_from_slice($T);
            t[N] = kani::any();
            t[N + 1] = kani::any();
            let e = fpatch(&mut t, $ID, $PK, $K, $S, $U, $L, $TV);
            let mut out: [u8; 200] = kani::any();
            let r = Filter::from_json(&t, &mut out);
            match r {
                Ok((consumed, written, f)) => {
                    kani::cover!(e.kind == 65535 && e.limit > u32::MAX as u128);
                    assert!(e.kind <= 65535);
                    assert!(consumed == $end && written == f.len());
                    fcheck(f, &e);
                }
                Err(err) => {
                    assert!(e.kind > 65535);
                    core::mem::forget(err);
                }
            }
        }
    };
}

//@ harness: c07_values_compact
//@ tier: quick
//@ timeout: 1800
//@ mem: 14
//@ unwindset: read_sig=66; read_id=34; read_pubkey=34; read_hex=66; memcmp.0=34
//@ encodes: Filter::from_json, parse_json_filter, read_id, read_pubkey, read_u64, json_unescape, Filter accessors
//@ bounds: compact text {ids,authors,kinds,since,until,limit,#e,#P}; symbolic: first+last hex digit of the id and the author, 5 digits of a kind, 10 digits each of since/until/limit (limit crosses 2^32), one tag value byte, trailing bytes, prior buffer contents. Accepted iff kind <= 65535; accessors return the denoted values; limit saturates, never wraps
filter_layout!(c07_values_compact, FL1, FL1_ID, FL1_PK, FL1_KIND, FL1_SINCE, FL1_UNTIL, FL1_LIMIT, FL1_TAGV, FL1.len());

//@ harness: c07_values_reordered_ws_unknown
//@ tier: quick
//@ timeout: 2400
//@ mem: 16
//@ unwindset: read_sig=66; read_id=34; read_pubkey=34; read_hex=66; memcmp.0=34
//@ encodes: Filter::from_json, parse_json_filter, burn_key_and_value, burn_value, burn_array, burn_object, burn_number, eat_whitespace_and_commas
//@ bounds: the same filter with the members in reverse-ish order, whitespace of all four kinds in the gaps, and three unknown members (string with escapes/brackets, nested array/object/null, negative exponent number); same symbolic values. Same verdict and same accessor values as the compact text
filter_layout!(c07_values_reordered_ws_unknown, FL2, FL2_ID, FL2_PK, FL2_KIND, FL2_SINCE, FL2_UNTIL, FL2_LIMIT, FL2_TAGV, FL2_END);

fn is_letter(c: u8) -> bool {
    (c >= b'A' && c <= b'Z') || (c >= b'a' && c <= b'z')
}

//@ harness: c07_tag_letter_pairs
//@ tier: quick
//@ timeout: 2400
//@ mem: 16
//@ unwindset: read_sig=66; read_id=34; read_pubkey=34; read_hex=66; memcmp.0=34
//@ encodes: parse_json_filter (tag-letter dispatch, duplicate bitmap), Filter::tags
//@ bounds: the texts {"#X":["a"],"#Y":["b"]} and {"#Y":["b"],"#X":["a"]} with X, Y arbitrary letters (all 52 x 52 ordered pairs in one query): both orders have the same verdict; distinct letters are accepted with exactly the two constraints; a repeated letter is rejected
//@ outside: three or more tag members (thorough: c07_tag_letter_triples); non-letter bytes after '#'
#[kani::proof]
#[kani::unwind(30)]
#[kani::stub(core::panic::Location::caller, stub_caller)]
fn c07_tag_letter_pairs() {
    let x: u8 = kani::any();
    let y: u8 = kani::any();
    kani::assume(is_letter(x) && is_letter(y));
    let t1 = [b'{', b'"', b'#', x, b'"', b':', b'[', b'"', b'a', b'"', b']', b',', b'"', b'#', y, b'"', b':', b'[', b'"', b'b', b'"', b']', b'}'];
    let t2 = [b'{', b'"', b'#', y, b'"', b':', b'[', b'"', b'b', b'"', b']', b',', b'"', b'#', x, b'"', b':', b'[', b'"', b'a', b'"', b']', b'}'];
    let mut o1 = [0u8; 64];
    let mut o2 = [0u8; 64];
    let r1 = Filter::from_json(&t1, &mut o1);
    let r2 = Filter::from_json(&t2, &mut o2);
    kani::cover!(x == b'e' && y == b'a');
    assert!(r1.is_ok() == r2.is_ok()); // order independence
    match (r1, r2) {
        (Ok((c1, _, f1)), Ok((c2, _, f2))) => {
            assert!(x != y);
            assert!(c1 == 23 && c2 == 23);
            let ta = f1.tags().unwrap();
            let tb = f2.tags().unwrap();
            assert!(ta.count() == 2 && tb.count() == 2);
            assert!(ta.get_string(0, 0).unwrap()[0] == x && ta.get_string(0, 1).unwrap()[0] == b'a');
            assert!(ta.get_string(1, 0).unwrap()[0] == y && ta.get_string(1, 1).unwrap()[0] == b'b');
            assert!(tb.get_string(0, 0).unwrap()[0] == y && tb.get_string(1, 0).unwrap()[0] == x);
        }
        (a, b) => {
            assert!(x == y);
            core::mem::forget(a);
            core::mem::forget(b);
        }
    }
}

//@ harness: c07_int_since_20
//@ tier: quick
//@ timeout: 1200
//@ mem: 12
//@ unwindset: read_sig=66; read_id=34; read_pubkey=34; read_hex=66; memcmp.0=34
//@ encodes: read_u64, parse_json_filter
//@ bounds: {"since":D,"until":D'} with 20 arbitrary digits each (no leading zero): each member is either rejected or read exactly (value < 2^64) or saturated to u64::MAX - never wrapped, never a panic
#[kani::proof]
#[kani::unwind(30)]
#[kani::stub(core::panic::Location::caller, stub_caller)]
fn c07_int_since_20() {
    let mut t = *b"{\"since\":11111111111111111111,\"until\":22222222222222222222}";
    let s = digits(&mut t, 9, 20);
    let u = digits(&mut t, 38, 20);
    let mut out = [0u8; 64];
    let r = Filter::from_json(&t, &mut out);
    match r {
        Ok((consumed, _, f)) => {
            kani::cover!(s == u64::MAX as u128);
            assert!(consumed == t.len());
            let fs = f.since().as_u64();
            let fu = f.until().as_u64();
            assert!(fs as u128 == s || (s > u64::MAX as u128 && fs == u64::MAX));
            assert!(fu as u128 == u || (u > u64::MAX as u128 && fu == u64::MAX));
        }
        Err(e) => {
            assert!(s > u64::MAX as u128 || u > u64::MAX as u128);
            core::mem::forget(e);
        }
    }
}

/// reference escaper for one ASCII byte, as in C02
fn ref_escape(c: u8, out: &mut [u8; 6]) -> usize {
    let two = |out: &mut [u8; 6], x: u8| {
        out[0] = b'\\';
        out[1] = x;
        2
    };
    match c {
        0x08 => two(out, b'b'),
        0x09 => two(out, b't'),
        0x0A => two(out, b'n'),
        0x0C => two(out, b'f'),
        0x0D => two(out, b'r'),
        0x22 => two(out, b'"'),
        0x5C => two(out, b'\\'),
        _ if c < 0x20 => {
            let hexd = |n: u8| if n < 10 { b'0' + n } else { b'a' + (n - 10) };
            out[0] = b'\\';
            out[1] = b'u';
            out[2] = b'0';
            out[3] = b'0';
            out[4] = hexd(c >> 4);
            out[5] = hexd(c & 15);
            6
        }
        _ => {
            out[0] = c;
            1
        }
    }
}

//@ harness: c07_as_json_roundtrip
//@ tier: quick
//@ timeout: 2400
//@ mem: 16
//@ unwindset: read_sig=66; read_id=34; read_pubkey=34; read_hex=66; memcmp.0=34
//@ encodes: Filter::as_json, Filter::from_json, json_escape, json_unescape
//@ bounds: a filter built by Filter::from_parts with one kind (7), since 5, limit 3 and the tag constraint e:[v w] where v, w are single arbitrary ASCII bytes 0x00..=0x7f (quotes, backslashes and control characters included): as_json produces exactly the reference writer's text (valid JSON with canonical escapes), and parsing it back yields a byte-identical filter
//@ outside: non-ASCII values, symbolic integers through format!, ids/authors (hex writer is covered by C03/C20 kernels)
#[kani::proof]
#[kani::unwind(32)]
#[kani::stub(core::panic::Location::caller, stub_caller)]
fn c07_as_json_roundtrip() {
    let v: u8 = kani::any();
    let w: u8 = kani::any();
    kani::assume(v < 0x80 && w < 0x80);
    let pool = [b'e', v, w];
    let shape: [&[usize]; 1] = [&[1, 1, 1]];
    let mut tbuf = [0u8; 24];
    let tl = enc_tags(&shape, &pool, &mut tbuf);
    let tags = unsafe { Tags::delineate(&tbuf[..tl]) }.unwrap();
    let mut fbuf = [0u8; 64];
    let f = Filter::from_parts(&[], &[], &[Kind::from_u16(7)], tags, Some(Time::from_u64(5)), None, Some(3), &mut fbuf);
    assert!(f.is_ok());
    let f = f.unwrap();
    let flen = f.len();
    let json = f.as_json();
    assert!(json.is_ok());
    let json = json.unwrap();
    let mut r = [0u8; 80];
    let mut p = 0;
    let mut push = |r: &mut [u8; 80], p: &mut usize, s: &[u8]| {
        let mut i = 0;
        while i < s.len() {
            r[*p] = s[i];
            *p += 1;
            i += 1;
        }
    };
    push(&mut r, &mut p, b"{\"kinds\":[7],\"#e\":[\"");
    let mut eb = [0u8; 6];
    let l = ref_escape(v, &mut eb);
    push(&mut r, &mut p, &eb[..l]);
    push(&mut r, &mut p, b"\",\"");
    let l = ref_escape(w, &mut eb);
    push(&mut r, &mut p, &eb[..l]);
    push(&mut r, &mut p, b"\"],\"limit\":3,\"since\":5}");
    kani::cover!(v == b'"' && w == 0x01);
    assert!(json.len() == p);
    let i: usize = kani::any();
    kani::assume(i < p);
    assert!(json[i] == r[i]);
    let mut out: [u8; 64] = kani::any();
    let back = Filter::from_json(&json, &mut out);
    assert!(back.is_ok());
    let (consumed, written, f2) = back.unwrap();
    assert!(consumed == p && written == flen);
    let k: usize = kani::any();
    kani::assume(k < flen);
    assert!(f2.as_bytes()[k] == fbuf[k]);
    core::mem::forget(json);
}
