//@@ property: C09
//@@ crate: db
//@@ mount: pocket-db/src/lib.rs
//@@ also: db_lmdb_helper.rs@pocket-db/src/lmdb/mod.rs, es_helper.rs@pocket-db/src/event_store.rs
// The address phases of Store::store_event / handle_deletion_event, run on their own over a
// two-event store: `find_parameterized_replaceable_event_inner` ("anything left => Replaced") and
// `remove_parameterized_replaceable` (pre-removal; removal by an `a` deletion).  A whole
// store_event on top of a seeded event exceeds 20 GB (c09_store_replaceable_two), the phases fit.
// That store_event is the sequence check-deleted, pre-remove, find-remaining, append, index,
// handle-deletion inside one transaction is read from lib.rs, not decided here.
use crate::*;
include!("common_db.rs");
include!("img.rs");
include!("store_common.rs");

/// Two events share the author+`d` index range of the address (30023, PK_1, "x"):
/// E1 = the address's own event, E2 = a neighbour that differs from it in `$k2`/`$pk2`/`$d2`.
macro_rules! param_phase {
    ($name:ident, $k2:expr, $pk2:expr, $d2:expr) => {
        store_harness!($name, {
            let store = verif_store();
            let b1: u8 = kani::any();
            let b2: u8 = kani::any();
            let bu: u8 = kani::any();
            let (t1, t2, until) = (0x1000 + b1 as u64, 0x1000 + b2 as u64, 0x1000 + bu as u64);
            let mut e1 = [0u8; 170];
            let n1 = enc_event_img(30023, t1, &ID_A, &PK_1, &SIG_0, &[&[1, 1]], b"dx", b"", &mut e1);
            let mut e2 = [0u8; 170];
            let n2 = enc_event_img($k2, t2, &ID_B, &$pk2, &SIG_0, &[&[1, 1]], $d2, b"", &mut e2);
            let _ = seed_stored(&store, as_event(&e1[..n1]));
            let _ = seed_stored(&store, as_event(&e2[..n2]));
            let addr = Addr { kind: Kind::from_u16(30023), author: Pubkey::from_bytes(PK_1), d: vec![b'x'] };
            // the holder of the address is E1, whatever the neighbour's time
            let cur = some!(ok!(store.find_parameterized_replaceable_event(&addr)));
            assert!(cur.id() == Id::from_bytes(ID_A), "the holder of the address is hidden by / confused with a neighbouring address");
            assert!(cur.created_at().as_u64() == t1);
            // removal of everything at the address up to `until`
            {
                let mut txn = ok!(store.indexes.write_txn());
                ok!(store.remove_parameterized_replaceable(&mut txn, &addr, Time::from_u64(until)));
                ok!(txn.commit());
            }
            kani::cover!(t2 > t1 && t2 <= until);
            kani::cover!(t1 > until);
            assert!(has(&store, &ID_B), "an event at a neighbouring address was removed");
            assert!(has(&store, &ID_A) == (t1 > until), "removal up to `until` did not remove exactly the address's events created at or before it");
            core::mem::forget(addr);
            core::mem::forget(store);
        });
    };
}

//@ harness: c09_param_phase_other_kind c09_param_phase_other_author c09_param_phase_other_d
//@ tier: thorough
//@ timeout: 3000
//@ mem: 20
//@ covers: any
//@ unwindset: put_bytes=80; heed::bytes_=260; heed::Table=6; memcmp.0=70; repeat::Repeat=190; Repeat.*try_fold=190; mmap_append=200; read_hex=34; enc_tags=6
//@ cbmc: --max-field-sensitivity-array-size 1100
//@ encodes: Store::find_parameterized_replaceable_event, Store::find_parameterized_replaceable_event_inner, Store::remove_parameterized_replaceable, Store::remove_by_offset, Lmdb::atc_iter, Lmdb::deindex, Lmdb::deindex_id, Store::has_event
//@ bounds: a store holding E1 = (kind 30023, author A, d "x", created_at arbitrary in 4096..=4351) and a neighbour E2 with an arbitrary created_at in the same range that differs from E1's address in exactly one component - kind 30024 / author B / d "y" (the instance) -: the lookup of address (30023, A, "x") returns E1 for every order of the two times; removal at that address up to an arbitrary `until` (4096..=4351) removes E1 iff its created_at <= until and never removes E2. These are the two phases Store::store_event runs for a parameterized-replaceable event and handle_deletion_event runs for an `a` tag
//@ outside: the composition of the phases inside store_event (by reading); d values other than one byte; more than two events; 64-bit times (one arbitrary byte each)
param_phase!(c09_param_phase_other_kind, 30024, PK_1, b"dx");
param_phase!(c09_param_phase_other_author, 30023, PK_2, b"dx");
param_phase!(c09_param_phase_other_d, 30023, PK_1, b"dy");

/// the same two-event store with CONCRETE times (E1 older than its neighbour, both not after `until`)
macro_rules! param_phase_fixed {
    ($name:ident, $k2:expr, $pk2:expr, $d2:expr) => {
        store_harness!($name, {
            let store = verif_store();
            let (t1, t2, until) = (0x1010u64, 0x1080u64, 0x10C0u64);
            let c: u8 = kani::any();
            let mut e1 = [0u8; 170];
            let n1 = enc_event_img(30023, t1, &ID_A, &PK_1, &SIG_0, &[&[1, 1]], b"dx", &[c], &mut e1);
            let mut e2 = [0u8; 170];
            let n2 = enc_event_img($k2, t2, &ID_B, &$pk2, &SIG_0, &[&[1, 1]], $d2, b"", &mut e2);
            let _ = seed_stored(&store, as_event(&e1[..n1]));
            let _ = seed_stored(&store, as_event(&e2[..n2]));
            let addr = Addr { kind: Kind::from_u16(30023), author: Pubkey::from_bytes(PK_1), d: vec![b'x'] };
            let cur = some!(ok!(store.find_parameterized_replaceable_event(&addr)));
            assert!(cur.id() == Id::from_bytes(ID_A), "the holder of the address is hidden by / confused with a neighbouring address");
            {
                let mut txn = ok!(store.indexes.write_txn());
                ok!(store.remove_parameterized_replaceable(&mut txn, &addr, Time::from_u64(until)));
                ok!(txn.commit());
            }
            assert!(has(&store, &ID_B), "an event at a neighbouring address was removed");
            assert!(!has(&store, &ID_A), "removal up to `until` did not remove the address's event");
            core::mem::forget(addr);
            core::mem::forget(store);
        });
    };
}

//@ harness: c09_param_phase_fixed_other_kind c09_param_phase_fixed_other_author
//@ tier: thorough
//@ timeout: 3000
//@ mem: 20
//@ covers: none
//@ unwindset: put_bytes=80; heed::bytes_=260; heed::Table=6; memcmp.0=70; repeat::Repeat=190; Repeat.*try_fold=190; mmap_append=200; read_hex=34; enc_tags=6
//@ cbmc: --max-field-sensitivity-array-size 1100
//@ encodes: Store::find_parameterized_replaceable_event_inner, Store::remove_parameterized_replaceable, Store::remove_by_offset, Lmdb::atc_iter, Lmdb::deindex
//@ bounds: the c09_param_phase_* scenario with CONCRETE times (E1 at 0x1010, its neighbour - other kind / other author - NEWER at 0x1080, removal up to 0x10C0; the solver quantifies only over one content byte): the lookup returns E1 although the newer neighbour comes first in the author+tag scan, and the removal removes E1 and keeps the neighbour. Concrete because an arbitrary time makes the scan result symbolic and the harness exceeds its caps (8.2)
param_phase_fixed!(c09_param_phase_fixed_other_kind, 30024, PK_1, b"dx");
param_phase_fixed!(c09_param_phase_fixed_other_author, 30023, PK_2, b"dx");
