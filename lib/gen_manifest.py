#!/usr/bin/env python3
"""Generate /verif/MANIFEST.json from the table below (kept next to the driver so
that claims, level notes and the not_applicable list are edited in one place)."""
import json, os, sys

VERIF = os.path.dirname(os.path.dirname(os.path.abspath(__file__)))

TECH = "bounded model checking of the compiled Rust (Kani 0.68 -> CBMC 6.11 -> CaDiCaL SAT), symbolic inputs via kani::any()"
BASE_NOTE = ("Trusted: Kani's MIR->GOTO translation, CBMC symex/bit-blasting, CaDiCaL; dev-profile semantics "
             "(overflow checks on), x86-64 little-endian; stub of core::panic::Location::caller. "
             "Bounded: each harness states its symbolic window and unwind bound in evidence samples[].bounds / outside_bounds; "
             "a harness that hits its time or memory cap is reported INCONCLUSIVE and not counted as discharged. ")

# property -> (claimed?, level text, extra note, design ref)
DB_NOTE = ("pocket-db harnesses run pocket-db's real code over ENVIRONMENT MODELS of heed/LMDB and mmap-append (model/, validated natively "
           "against all 35 pocket-db tests by ./setup) and std::fs / clock / io::Error-message stubs; built with the guarded hook "
           "--cfg mikedilger_pocket_verif (256-byte EVENT_MAP_CHUNK). Counterexamples of these harnesses are reported on the solver's "
           "verdict against the model (Kani playback cannot replay them natively); the two defects found this way were confirmed by hand. ")
JSON_NOTE = ("Arbitrary input bytes are decided on kernels (integer readers, unescaper, hex, UTF-8); member-level JSON harnesses run on constant "
             "texts (validated against Python's json at generation time) with arbitrary prior output-buffer contents: one arbitrary byte in a "
             "300-byte text makes the whole parse symbolic for CBMC and does not finish (DESIGN.md 8.3). ")

# property -> (level text, extra note, design ref)
CLAIMS = {
    "C01": ("read_u64/read_kind decided on every digit string up to 21/11 digits (exact value or rejected, never wrapped); the value skippers "
            "that step over unknown members decided on arbitrary bytes against RFC 8259 reference recognisers (burn_value on every number of "
            "up to 6 bytes, burn_string on every body of up to 7 bytes, burn_key_and_value on arbitrary two-byte keys with ten value shapes and "
            "optional whitespace); Event::from_json on constant texts covering seven member orders (each member last once; content before/after "
            "tags), whitespace in every gap, unknown members (strings ending in an escaped backslash, numbers with a leading zero, nested values), "
            "deferred content and every escape spelling: accepted, consumed = offset past the brace, every accessor equals the denoted part, for "
            "every prior content of the output buffer.", JSON_NOTE, "DESIGN.md 8.3 C01"),
    "C02": ("Same text parsed into a zeroed and into an arbitrary buffer is byte-identical; compact vs. whitespace/unknown-member/deferred layout vs. "
            "Event::from_parts byte-identical; escaped vs. literal spelling byte-identical; (thorough) as_json equals a reference NIP-01 writer for "
            "arbitrary ASCII tag/content bytes and parses back to the identical image.", JSON_NOTE, "DESIGN.md 8.3 C02"),
    "C03": ("Kani's memory-safety, overflow, bounds and unwinding checks on every parser entry: UTF-8 step/encode on their whole input space, the "
            "unescaper on every input up to 3 bytes and every output length, \\uXXXX with 4 arbitrary bytes, hex readers on every 64-byte input and "
            "every length 0..=130, Addr on short arbitrary inputs; Tags/Filter/Event::from_json on prefix lengths and on output lengths around the "
            "needed size (instance families, seeded in quick), a filter with 53 '#digit' members (fixed-capacity member table); consumed <= length, "
            "accessors total.", JSON_NOTE, "DESIGN.md 8.3 C03"),
    "C04": ("One EventStore::store_event from an arbitrary valid file state (arbitrary earlier bytes, arbitrary event image; end-marker residues and "
            "fits/exact/grows instances): 8-aligned offset at or after the old end, end = offset+len within the file, byte-identical read-back, earlier "
            "bytes unchanged; histories of two/three arbitrary events across file growth and remap; creation; reopen of a three-chunk file followed "
            "by growth.", DB_NOTE + "Not claimed: id lookup across Store-level histories.", "DESIGN.md 8.3 C04"),
    "C05": ("Index keys: byte-lexicographic order == newest first with id tie-break for ci/ac/akc keys, (author,kind) prefix separation; scan bounds of "
            "all six *_iter functions for an arbitrary since/until window; the scraping gate of find_events on an empty store with arbitrary "
            "since/until/limit/clock/allowances never panics and refuses exactly when the allowances do not cover the filter; the author+kind, "
            "author and tag plans of find_events on an empty store with arbitrary window/limit and no scraping allowance are never refused, "
            "never panic and return the empty answer.", DB_NOTE +
            "Not claimed: query plans over non-empty stores, limit selection, redaction (find_events dereferences stored events: DESIGN.md 8.2).",
            "DESIGN.md 8.3 C05"),
    "C06": ("Filter::event_matches equals a reference NIP-01 predicate on byte images with arbitrary contents: 0..2 ids/authors/kinds in six count "
            "shapes with arbitrary times, and tag shapes with prefix/extension values, empty values, multi-letter names, repeated names, name-only and "
            "empty tags, event without tags; never Err.", "Operand images come from a reference encoder written from the layout comments "
            "(C19 decides that from_parts writes the same images).", "DESIGN.md 8.3 C06"),
    "C07": ("Filter::from_json on constant texts (compact; a tag value containing closing brackets/braces with the tag member first and last; "
            "(thorough) reordered with whitespace and unknown members): accessors equal the denoted values, both member orders agree; limit at "
            "2^32-1, 2^32, 2^64-1 saturates; eight tag-letter pairs around the duplicate bitmap incl. both alphabets' last letters; as_json of an "
            "escape-needing filter equals the reference text, and that text parses back to the from_parts image (round trip in two steps); "
            "(thorough) as_json for arbitrary ASCII values.", JSON_NOTE, "DESIGN.md 8.3 C07"),
    "C09": ("Kind classification on all 65,536 kinds (mutually exclusive, NIP-01 ranges); Kind::try_from_string_bytes on every digit string; "
            "akc index key order and (author,kind) separation; author+tag index: an entry for (author,'d',v1) is visible to the scan for "
            "(author','d',v2) iff author = author' and v1 = v2, for arbitrary authors and 1-2 byte values - except the listed known finding "
            "(values differing only by trailing NUL bytes collide).", DB_NOTE + "Not decided: Store-level replacement histories (thorough "
            "harnesses exist and hit their caps: they dereference stored events, DESIGN.md 8.2).", "DESIGN.md 8.3 C09, 8.5"),
    "C11": ("Lmdb level: the recorded deletion time of an address after two markings with arbitrary 64-bit times in either order is the maximum. "
            "Store level: an event whose id carries a deletion marker is refused as deleted by a complete store_event (arbitrary time and author "
            "byte), and the marker stays. "
            "Store level: with an address deletion at T on record, a complete store_event of an event at that address with an arbitrary "
            "created_at is refused as deleted iff created_at <= T and stored otherwise, and the recorded time is unchanged.", DB_NOTE +
            "Not claimed: rebuild/reopen continuations; removal of covered events that are already stored (dereferences stored events).",
            "DESIGN.md 8.3 C11"),
    "C12": ("Store level: a complete store_event that fails as deleted (marker on the id; marker on the address) or as a duplicate (same id "
            "already stored; arbitrary time, author byte and signature) makes no durable commit with an effective change - every committed "
            "table of the environment model is what it was - and leaves lookups, markers and statistics unchanged.", DB_NOTE +
            "Not decided: replaced (also with a pending pre-removal) and invalid-delete causes (thorough harnesses exist and hit their caps).",
            "DESIGN.md 8.3 C12"),
    "C13": ("Crash point as a symbolic variable: one complete Store::store_event killed at any of its persistent effects (payload halves, end marker, "
            "LMDB commit, in program order) leaves either nothing or the complete event behind an id lookup - never an index entry without bytes; "
            "EventStore::new killed at any effect of creation reopens as an empty store with end marker 8; (thorough) a second "
            "EventStore::store_event killed at any effect.", DB_NOTE +
            "Assumes a store into the shared mapping survives a process kill and effects reach the file in program order. Not claimed: "
            "remove/vanish, OS page reordering.", "DESIGN.md 8.3 C13"),
    "C15": ("EventStore level: a reference taken before a store that enlarges the file keeps its bytes; its address is unchanged under a non-moving "
            "resize and changes under mremap(MAYMOVE) - the latter is a listed known finding.", DB_NOTE, "DESIGN.md 8.3 C15, 8.5"),
    "C17": ("Lmdb level, one write transaction, event as a local image: after Lmdb::index the id/time/author/author-kind tables hold 1 entry and "
            "the three tag tables equally many; after Lmdb::deindex + deindex_id every table is empty again - for a single tag [L ab] with an "
            "ARBITRARY one-byte tag name L (either case, digits, any byte), for the constant names E (upper case) and 7 (not a letter) - the two classes where index() and deindex() could disagree, kept constant so that a divergence stays decidable - and for the same indexable tag repeated twice.", DB_NOTE +
            "Thorough tier adds the constant four-tag shape [e ab] [e ab] [q] [] (name without value, empty tag; 526 s). " +
            "Not decided: access-path agreement (find_events over stored events), the Store-level removal wrappers and statistics "
            "(thorough harnesses, hit their caps), several events.", "DESIGN.md 8.3 C17"),
    "C18": ("Store level: an event whose kind is arbitrary in 20000..=30010 is stored by a complete store_event, retrievable iff not ephemeral, and "
            "carries no deletion marker; for every ephemeral kind 20000..=29999 and arbitrary time the statistics afterwards count 0 entries in "
            "every index table, so no lookup or query path can reach the event.", DB_NOTE + "Not decided: vanish; remove_event of a stored event "
            "and among two events, removal of an absent id (thorough harnesses, hit their caps).", "DESIGN.md 8.3 C18"),
    "C19": ("Tags/Event/Filter::from_parts with arbitrary contents: image equals a reference encoder's, accessors return the parts in order (absent "
            "options as their defaults), BufferTooSmall exactly below the needed size, never a panic.",
            "Not claimed: the 65,536-boundaries (the array-theory query ran out of 16 GB), sign_new (FFI), the JSON paths (C01/C07).",
            "DESIGN.md 8.3 C19"),
    "C20": (
        "Solver-decided over the real Hll8 code: merge commutative/associative/idempotent and equal to register-wise max on all "
        "256-register states; add_element equals max with a bit-level reference rho for every element, offset and prior state, "
        "idempotent, order-independent; union law at offsets 0/16/23; hex export digits and the read/write macro round trip on every "
        "32-byte value; estimate_count panic-free, finite and non-zero for every single-register extreme 0..=255 and exactly 0 on the "
        "empty sketch. Not claimed: statistical accuracy, estimate over arbitrary multi-register states, Hll8-sized hex import.",
        "Additional stub: f64::powi modelled exactly for base 2.0 (power of two), arbitrary otherwise.",
        "DESIGN.md section 4 C20, 8.3"),
}

NOT_APPLICABLE = {
    "C10": "Every scenario that decides it must run Store::handle_deletion_event over the request's tags and, for e targets, dereference "
           "the stored victim. Measured with Kani/CBMC: the a-tag phase alone and the whole store_event around it do not finish in 700 s, "
           "the by-id scenarios exceed 20 GB (Store::get_event_by_id is not evaluable by CBMC's symbolic executor even on a concrete store, "
           "after which both sides of every branch are executed; measured with fold probes, DESIGN.md 8.2), and Addr::try_from_bytes with two "
           "arbitrary hex digits needs more than 750 s. The address-parser kernel that remains "
           "(decided under C03) does not settle the property. Harnesses are kept in harness/c10_store.rs (./check C10 --tier thorough); nothing is claimed.",
    "C08": "Verification = canonical text -> SHA-256 -> libsecp256k1 (C code behind FFI): neither the hash of a symbolic-length string nor the "
           "signature check can be encoded; the canonical-text kernels that remain are decided under C02/C03 and would not settle 'accepts exactly'.",
    "C14": "Concurrency: Kani/CBMC do not model Rust threads; the isolation relied on is LMDB's writer lock/MVCC (C code behind FFI) "
           "and locks inside mmap-append. Under any sequential environment model the property is trivially true of the model, not of pocket (DESIGN.md section 5).",
    "C16": "Rebuild renames directories, checks file ownership and re-indexes through two LMDB environments - beyond the environment model and the "
           "memory budget. Reopen: the event file's reopen is decided under C04/C13; the Lmdb-level reopen harnesses (harness/c16_reopen.rs: the real "
           "Lmdb::new on an environment that already holds markers and index entries) run out of 16 GB, so nothing is claimed for C16; the marker-dump "
           "round trip that remains is a thorough harness of C11.",
}

PENDING = "check not built yet in this revision of /verif (work in progress; see DESIGN.md section 4 for the plan)"


def main():
    props = [json.loads(l)["id"] for l in open(os.path.join(VERIF, "properties.jsonl"))]
    checks, na = [], []
    for pid in props:
        if pid in CLAIMS:
            text, note, ref = CLAIMS[pid]
            checks.append({
                "property_id": pid,
                "quick_cmd": "./check %s --tier quick" % pid,
                "thorough_cmd": "./check %s --tier thorough" % pid,
                "evidence_file": "evidence/%s.json" % pid,
                "replay_cmd_template": "./check %s --replay {path}" % pid,
                "engine": "kani-cbmc",
                "level_claimed": {"category": "model_checking", "text": text, "design_ref": ref},
                "level_note": BASE_NOTE + note,
                "technique": TECH,
            })
        else:
            na.append({"property_id": pid, "reason": NOT_APPLICABLE.get(pid, PENDING)})
    m = {
        "version": 1,
        "setup_cmd": "./setup",
        "hooks": {
            "guard": "cfg(mikedilger_pocket_verif) - selects a 256-byte EVENT_MAP_CHUNK in pocket-db/src/event_store.rs (declared in pocket-db/Cargo.toml [lints.rust] check-cfg)",
            "enable": "./check copies /repo's working tree to $VERIF_SCRATCH (default /var/tmp/pocket-verif), appends `#[cfg(kani)] #[path=..] mod verif_*;` lines to the copied sources and runs cargo kani there; pocket-db harnesses are built with RUSTFLAGS=--cfg mikedilger_pocket_verif",
            "baseline_off_cmd": "cd /repo && cargo test --workspace --no-fail-fast --offline",
            "source_commits": ["637403a"],
            "add_only": False,
        },
        "engines": [{
            "name": "kani-cbmc", "path": "check",
            "serves_properties": [c["property_id"] for c in checks],
            "kind_free_text": "Kani 0.68.0 (pinned toolchain) -> CBMC 6.11.0 -> CaDiCaL; driver lib/driver.py; harnesses harness/*.rs; "
                              "environment models model/{heed,mmap-append} for pocket-db",
        }],
        "checks": checks,
        "not_applicable": na,
        "notes": "Fix commits in /repo and known findings are listed in known_findings.txt. Exit codes: 0 held / 1 VIOLATION / 2 machinery broken.",
    }
    with open(os.path.join(VERIF, "MANIFEST.json"), "w") as f:
        json.dump(m, f, indent=1)
    print("MANIFEST.json: %d checks, %d not_applicable" % (len(checks), len(na)))


if __name__ == "__main__":
    main()
