//@@ property: C12
//@@ crate: db
//@@ mount: pocket-db/src/lib.rs
//@@ also: db_lmdb_helper.rs@pocket-db/src/lmdb/mod.rs, es_helper.rs@pocket-db/src/event_store.rs
use crate::*;
include!("common_db.rs");
include!("img.rs");
include!("store_common.rs");

//@ harness: c12_deleted_id_changes_nothing
//@ serves: C11
//@ tier: quick
//@ timeout: 700
//@ mem: 20
//@ covers: any
//@ unwindset: put_bytes=80; heed::bytes_=260; heed::Table=6; memcmp.0=70; repeat::Repeat=190; Repeat.*try_fold=190; mmap_append=200; read_hex=34; enc_tags=6
//@ cbmc: --max-field-sensitivity-array-size 1100
//@ encodes: Store::store_event (deleted-id path), Lmdb::is_deleted, Lmdb::mark_deleted, Store::stats, heed model rollback
//@ bounds: a store whose only content is an accepted deletion marker on one id (Lmdb::mark_deleted, committed - what handle_deletion_event records for an e tag whose target is not stored); storing an event with that id - kind 1 with one indexable tag, created_at arbitrary in 4096..=4351 (one arbitrary byte), arbitrary first author byte - is refused as deleted: no durable commit carried an effective put/delete (every committed table is what it was), the event is not retrievable, the marker is still there, and the statistics still count 0 index entries and 1 deleted id
//@ outside: the other failure causes (duplicate, replaced, invalid delete: thorough tier), larger pre-states
store_harness!(c12_deleted_id_changes_nothing, {
    let store = verif_store();
    {
        let mut txn = ok!(store.indexes.write_txn());
        ok!(store.indexes.mark_deleted(&mut txn, Id::from_bytes(ID_A)));
        ok!(txn.commit());
    }
    let env = crate::lmdb::verif_db_lmdb_helper::env_of(&store.indexes);
    let commits = heed::verif::mutating_commits(env);
    let lo: u8 = kani::any();
    let t: u64 = 0x1000 + lo as u64;
    let mut pk = PK_1;
    pk[0] = kani::any();
    let mut b = [0u8; 170];
    let n = enc_event_img(1, t, &ID_A, &pk, &SIG_0, &[&[1, 2]], b"eab", b"", &mut b);
    let o = outcome(store.store_event(as_event(&b[..n])));
    kani::cover!(lo == 0xff);
    assert!(o == Outcome::Deleted);
    assert!(heed::verif::mutating_commits(env) == commits, "a store that failed as deleted made a durable change");
    assert!(!has(&store, &ID_A));
    assert!(ok!(store.event_is_deleted(Id::from_bytes(ID_A))));
    let s = ok!(store.stats());
    let ix = &s.index_stats;
    assert!(ix.i_index_entries == 0 && ix.ci_index_entries == 0 && ix.ac_index_entries == 0 && ix.akc_index_entries == 0);
    assert!(ix.tc_index_entries == 0 && ix.atc_index_entries == 0 && ix.ktc_index_entries == 0);
    assert!(ix.deleted_index_entries == 1 && ix.deleted_naddr_index_entries == 0);
    core::mem::forget(s);
    core::mem::forget(store);
});

//@ harness: c12_deleted_address_changes_nothing
//@ tier: quick
//@ timeout: 700
//@ mem: 20
//@ covers: any
//@ unwindset: put_bytes=80; heed::bytes_=260; heed::Table=6; memcmp.0=70; repeat::Repeat=190; Repeat.*try_fold=190; mmap_append=200; read_hex=34; enc_tags=6; c12_deleted=70
//@ cbmc: --max-field-sensitivity-array-size 1100
//@ encodes: Store::store_event (deleted-address path for a parameterized-replaceable event), Lmdb::when_is_naddr_deleted, Tags::get_value, Store::stats, heed model rollback
//@ bounds: a store whose only content is an accepted deletion of the address (30023, author, "x") at time 4224; storing an event at that address with an ARBITRARY created_at <= 4224 (one arbitrary byte) is refused as deleted: no durable commit carried an effective put/delete, the event is not retrievable, the recorded deletion time is unchanged and the statistics still count 0 index entries and 1 deleted address
store_harness!(c12_deleted_address_changes_nothing, {
    let store = verif_store();
    let addr = Addr { kind: Kind::from_u16(30023), author: Pubkey::from_bytes(PK_1), d: vec![b'x'] };
    {
        let mut txn = ok!(store.indexes.write_txn());
        ok!(store.indexes.mark_naddr_deleted(&mut txn, &addr, Time::from_u64(0x1080)));
        ok!(txn.commit());
    }
    let env = crate::lmdb::verif_db_lmdb_helper::env_of(&store.indexes);
    let commits = heed::verif::mutating_commits(env);
    let lo: u8 = kani::any();
    let t: u64 = 0x1000 + lo as u64;
    kani::assume(t <= 0x1080);
    let mut b = [0u8; 200];
    let n = enc_event_img(30023, t, &ID_B, &PK_1, &SIG_0, &[&[1, 1]], b"dx", b"", &mut b);
    let o = outcome(store.store_event(as_event(&b[..n])));
    kani::cover!(t == 0x1080);
    assert!(o == Outcome::Deleted);
    assert!(heed::verif::mutating_commits(env) == commits, "a store that failed as deleted made a durable change");
    assert!(!has(&store, &ID_B));
    assert!(ok!(store.naddr_is_deleted_asof(&addr)) == Some(Time::from_u64(0x1080)));
    let s = ok!(store.stats());
    let ix = &s.index_stats;
    assert!(ix.i_index_entries == 0 && ix.ci_index_entries == 0 && ix.ac_index_entries == 0 && ix.akc_index_entries == 0);
    assert!(ix.tc_index_entries == 0 && ix.atc_index_entries == 0 && ix.ktc_index_entries == 0);
    assert!(ix.deleted_index_entries == 0 && ix.deleted_naddr_index_entries == 1);
    core::mem::forget(s);
    core::mem::forget(addr);
    core::mem::forget(store);
});

//@ harness: c12_duplicate_changes_nothing
//@ tier: quick
//@ timeout: 700
//@ mem: 20
//@ covers: none
//@ unwindset: put_bytes=80; heed::bytes_=260; heed::Table=6; memcmp.0=70; repeat::Repeat=190; Repeat.*try_fold=190; mmap_append=200; read_hex=34; enc_tags=6
//@ cbmc: --max-field-sensitivity-array-size 1100
//@ encodes: Store::store_event (duplicate path), heed model transaction rollback
//@ bounds: fresh store; an event (kind 1, one indexable tag, created_at 1000) is in the store (seeded through EventStore::store_event + Lmdb::index); storing an event with the same id (kind 1; created_at arbitrary in 4096..=4351, first author byte and all 64 signature bytes arbitrary) fails as a duplicate, and the failing call made no durable commit that carried an effective put/delete - in the environment model the committed tables (all indexes, marker tables, extra tables) change only inside such a commit, so they are exactly what they were; the stored event is still the one retrievable
//@ outside: the other failure causes (thorough: c12_foreign_delete_changes_nothing), larger pre-states
store_harness!(c12_duplicate_changes_nothing, {
    let store = verif_store();
    let mut b = [0u8; 170];
    let n = enc_event_img(1, 1000, &ID_A, &PK_1, &SIG_0, &[&[1, 2]], b"eab", b"", &mut b);
    let _ = seed_stored(&store, as_event(&b[..n]));
    let env = crate::lmdb::verif_db_lmdb_helper::env_of(&store.indexes);
    let commits = heed::verif::mutating_commits(env);
    // the event offered: same id; created_at (one byte), first author byte and signature arbitrary.
    // (Arbitrary kind / 64-bit time / whole author ran out of memory: CBMC also explores the
    // continuation after the duplicate test, whose cost grows with every symbolic field.)
    let kind: u16 = 1;
    let lo: u8 = kani::any();
    let t: u64 = 0x1000 + lo as u64;
    let mut pk = PK_1;
    pk[0] = kani::any();
    let sig: [u8; 64] = kani::any();
    let mut b2 = [0u8; 170];
    let n2 = enc_event_img(kind, t, &ID_A, &pk, &sig, &[&[1, 2]], b"dab", b"", &mut b2);
    let o = outcome(store.store_event(as_event(&b2[..n2])));
    assert!(o == Outcome::Duplicate);
    assert!(heed::verif::mutating_commits(env) == commits);
    // the model's committed tables change only inside a durable commit(): no commit, no change
    assert!(has(&store, &ID_A));
    let still = some!(ok!(store.get_event_by_id(Id::from_bytes(ID_A))));
    assert!(still.kind().as_u16() == 1 && still.created_at().as_u64() == 1000);
    core::mem::forget(store);
});

//@ harness: c12_replaced_changes_nothing
//@ tier: thorough
//@ timeout: 3000
//@ mem: 20
//@ covers: none
//@ unwindset: put_bytes=80; heed::bytes_=260; heed::Table=6; memcmp.0=70; repeat::Repeat=190; Repeat.*try_fold=190; mmap_append=200; read_hex=34; enc_tags=6
//@ cbmc: --max-field-sensitivity-array-size 1100
//@ encodes: Store::store_event (replaceable path: remove_replaceable scan, find_replaceable_event_inner, Replaced), heed model rollback
//@ bounds: a replaceable event (kind 10003, created_at 4224 = 0x1080) is in the store (seeded); an event at the same address with an arbitrary created_at in 4096..=4223 (one arbitrary byte) is refused as replaced - after the pre-removal scan has run inside the transaction - and no durable commit carried an effective put/delete (so every committed model table is exactly what it was); the holder is still retrievable, the refused event is not
store_harness!(c12_replaced_changes_nothing, {
    let store = verif_store();
    let mut b1 = [0u8; 160];
    let n1 = enc_event_img(10003, 0x1080, &ID_A, &PK_1, &SIG_0, &[], b"", b"", &mut b1);
    let _ = seed_stored(&store, as_event(&b1[..n1]));
    let env = crate::lmdb::verif_db_lmdb_helper::env_of(&store.indexes);
    let commits = heed::verif::mutating_commits(env);
    let lo: u8 = kani::any();
    let t: u64 = 0x1000 + lo as u64;
    kani::assume(t < 0x1080);
    let mut b2 = [0u8; 160];
    let n2 = enc_event_img(10003, t, &ID_B, &PK_1, &SIG_0, &[], b"", b"", &mut b2);
    let o = outcome(store.store_event(as_event(&b2[..n2])));
    assert!(o == Outcome::Replaced);
    assert!(heed::verif::mutating_commits(env) == commits);
    // the model's committed tables change only inside a durable commit(): no commit, no change
    assert!(has(&store, &ID_A) && !has(&store, &ID_B));
    core::mem::forget(store);
});


//@ harness: c12_param_replaced_pending_removal
//@ tier: thorough
//@ timeout: 3000
//@ mem: 20
//@ covers: any
//@ unwindset: put_bytes=80; heed::bytes_=260; heed::Table=6; memcmp.0=70; repeat::Repeat=190; Repeat.*try_fold=190; mmap_append=200; read_hex=34; enc_tags=6
//@ cbmc: --max-field-sensitivity-array-size 1100
//@ encodes: Store::store_event (parameterized path: deleted check, remove_parameterized_replaceable, find_parameterized_replaceable_event_inner, Replaced), Store::remove_by_offset, Lmdb::deindex, heed model rollback
//@ bounds: one author, kind 30023: Z with d "b" (created_at 0x1010) and X with the tags [d a][d b] (created_at 0x10C0; its address is its first d value "a", but the author+tag index lists it under "b" too) are in the store (seeded); an event Y with d "b" and an ARBITRARY created_at below X's (one arbitrary byte; above and below Z's) is refused as replaced - when Y is newer than Z, AFTER the pre-removal has deleted Z's index entries inside the transaction. No durable commit carried an effective put/delete, so every committed table is exactly what it was; Z and X are still retrievable, Y is not
//@ outside: other failure causes (c12_duplicate_changes_nothing, c12_replaced_changes_nothing), larger pre-states
store_harness!(c12_param_replaced_pending_removal, {
    let store = verif_store();
    let mut bz = [0u8; 170];
    let nz = enc_event_img(30023, 0x1010, &ID_A, &PK_1, &SIG_0, &[&[1, 1]], b"db", b"", &mut bz);
    let mut bx = [0u8; 180];
    let nx = enc_event_img(30023, 0x10C0, &ID_B, &PK_1, &SIG_0, &[&[1, 1], &[1, 1]], b"dadb", b"", &mut bx);
    let _ = seed_stored(&store, as_event(&bz[..nz]));
    let _ = seed_stored(&store, as_event(&bx[..nx]));
    let env = crate::lmdb::verif_db_lmdb_helper::env_of(&store.indexes);
    let commits = heed::verif::mutating_commits(env);
    let lo: u8 = kani::any();
    let t: u64 = 0x1000 + lo as u64;
    kani::assume(t < 0x10C0 && t != 0x1010);
    let mut by = [0u8; 170];
    let ny = enc_event_img(30023, t, &ID_C, &PK_1, &SIG_0, &[&[1, 1]], b"db", b"", &mut by);
    let o = outcome(store.store_event(as_event(&by[..ny])));
    kani::cover!(t > 0x1010);
    assert!(o == Outcome::Replaced);
    assert!(heed::verif::mutating_commits(env) == commits, "a store that failed as replaced made its pre-removal durable");
    assert!(has(&store, &ID_A) && has(&store, &ID_B) && !has(&store, &ID_C));
    core::mem::forget(store);
});

//@ harness: c12_replaced_pending_removal_fixed_times
//@ tier: thorough
//@ timeout: 3000
//@ mem: 20
//@ covers: none
//@ unwindset: put_bytes=80; heed::bytes_=260; heed::Table=6; memcmp.0=70; repeat::Repeat=190; Repeat.*try_fold=190; mmap_append=200; read_hex=34; enc_tags=6
//@ cbmc: --max-field-sensitivity-array-size 1100
//@ encodes: Store::store_event (replaceable path: remove_replaceable actually removing, find_replaceable_event_inner, Replaced), Store::remove_by_offset, Lmdb::deindex, heed model rollback
//@ bounds: CONCRETE times (the solver quantifies only over the signature and one content byte of the offered event; with an arbitrary time the same scenario exceeds 20 GB): two events of one author and replaceable kind 10003 created at 0x1010 and 0x1080 are index entries of the store (seeded directly; a state the API itself never produces, used because it makes the pre-removal of store_event effective before the refusal); an event created at 0x1040 is offered: the pre-removal deletes the older event's index entries inside the transaction, the newer one is found, the store is refused as replaced - and no durable commit carried an effective put/delete: both seeded events are still retrievable
//@ outside: arbitrary times; the parameterized path (c12_param_replaced_pending_removal)
store_harness!(c12_replaced_pending_removal_fixed_times, {
    let store = verif_store();
    let mut bo = [0u8; 160];
    let no = enc_event_img(10003, 0x1010, &ID_A, &PK_1, &SIG_0, &[], b"", b"o", &mut bo);
    let mut bh = [0u8; 160];
    let nh = enc_event_img(10003, 0x1080, &ID_B, &PK_1, &SIG_0, &[], b"", b"h", &mut bh);
    let _ = seed_stored(&store, as_event(&bo[..no]));
    let _ = seed_stored(&store, as_event(&bh[..nh]));
    let env = crate::lmdb::verif_db_lmdb_helper::env_of(&store.indexes);
    let commits = heed::verif::mutating_commits(env);
    let sig: [u8; 64] = kani::any();
    let c: u8 = kani::any();
    let mut by = [0u8; 160];
    let ny = enc_event_img(10003, 0x1040, &ID_C, &PK_1, &sig, &[], b"", &[c], &mut by);
    let o = outcome(store.store_event(as_event(&by[..ny])));
    assert!(o == Outcome::Replaced);
    assert!(heed::verif::mutating_commits(env) == commits, "a store that failed as replaced made its pre-removal durable");
    assert!(has(&store, &ID_A) && has(&store, &ID_B) && !has(&store, &ID_C));
    core::mem::forget(store);
});
