#!/bin/bash
# usage: run_expect.sh [pattern] : run every line of seeded/EXPECT.tsv (matching pattern) through try_seed.sh,
# N at a time (VERIF_PAR, default 3); results in <dir>/detection.<P>.log and a summary on stdout
cd /verif
PAT=${1:-.}
PAR=${VERIF_PAR:-3}
grep -v '^#' seeded/EXPECT.tsv | grep -E "$PAT" | while IFS=$'\t' read -r dir prop only note; do
  args=""
  if [ "$only" != "-" ]; then for o in $only; do args="$args --only $o"; done; fi
  echo "lib/try_seed.sh $dir $prop $args"
done | VERIF_JOBS=5 VERIF_MEM_GB=18 xargs -P $PAR -I{} bash -c '{} 2>&1 | tail -1'
