//@@ property: C04
//@@ crate: db
//@@ mount: pocket-db/src/event_store.rs
//@@ also: es_helper.rs@pocket-db/src/event_store.rs
// EventStore-level harnesses over the mmap-append / std::fs environment model
// (DESIGN.md 2.3).  One step of `store_event` from an arbitrary valid file state.
use super::*;
include!("common_db.rs");

/// Pre-state: an existing file of length `l` whose end marker is `e`; bytes in [8, e)
/// are arbitrary (whatever earlier history wrote), bytes at and beyond `e` are zero.
fn prestate(l: usize, e: usize) {
    mmap_append::verif::set_file(true, l);
    let d = mmap_append::verif::data();
    d[0] = e as u8;
    d[1] = (e >> 8) as u8;
    let mut i = 8;
    while i < e {
        d[i] = kani::any();
        i += 1;
    }
}

/// an arbitrary event image of exactly `S` bytes (arbitrary contents, consistent length prefix).
/// The `&Event` view is made with the same pointer cast as `Event::from_inner`: taking it out
/// of `Event::delineate`'s niche-encoded `Result` would make its length a non-constant for the
/// symbolic executor, and every later bounds test would fork.
fn any_event<const S: usize>(buf: &mut [u8; S]) -> &Event {
    let lb = (S as u32).to_ne_bytes();
    buf[0] = lb[0];
    buf[1] = lb[1];
    buf[2] = lb[2];
    buf[3] = lb[3];
    let s: &[u8] = &buf[..];
    unsafe { &*(s as *const [u8] as *const Event) }
}

/// `EventStore::new` for an existing file of known length, field by field (same reason:
/// keeps the struct out of a `Result`).  `EventStore::new` itself is exercised by the
/// reopen step of every instance and by c04_create_fresh / the C13 creation harnesses.
fn open_existing(l: usize) -> EventStore {
    let event_map_file = unsafe { <std::fs::File as std::os::unix::io::FromRawFd>::from_raw_fd(1000) };
    let event_map = match unsafe { MmapAppend::new(&event_map_file, false) } {
        Ok(m) => m,
        Err(e) => {
            core::mem::forget(e);
            panic!("model map")
        }
    };
    EventStore { event_map_file, event_map_file_len: AtomicUsize::new(l), event_map }
}

/// one store from pre-state (l, e) of an arbitrary S-byte event
fn one_store<const S: usize>(l: usize, e: usize, grows: bool, reopen: bool) {
    prestate(l, e);
    // the earlier bytes, remembered before the call
    let mut before = [0u8; 112];
    let mut j = 8;
    while j < e {
        before[j] = mmap_append::verif::data()[j];
        j += 1;
    }
    let store = open_existing(l);
    assert!(store.read_event_map_end() == e);
    let mut buf: [u8; S] = kani::any();
    let ev = any_event::<S>(&mut buf);
    let off = ok!(store.store_event(ev));
    let aligned = (e + 7) / 8 * 8;
    // returned offset: at or after the old end, 8-aligned, never inside earlier data
    assert!(off == aligned && off >= e && off % 8 == 0);
    // new end marker = offset + len, inside the (possibly enlarged) file
    let end = store.read_event_map_end();
    assert!(end == off + S);
    let flen = mmap_append::verif::file_len();
    assert!(end <= flen);
    assert!(flen == if grows { l + 256 } else { l });
    // read back byte-identical
    let got = ok!(unsafe { store.get_event_by_offset(off) });
    assert!(got.as_bytes().len() == S);
    let k: usize = kani::any();
    kani::assume(k < S);
    kani::cover!(k == S - 1);
    assert!(got.as_bytes()[k] == buf[k]);
    // every byte below the old end is unchanged
    j = 8;
    while j < e {
        assert!(mmap_append::verif::data()[j] == before[j]);
        j += 1;
    }
    core::mem::forget(store);
    if reopen {
        // reopen (the real EventStore::new on what is in the file): same end, same bytes
        let again = ok!(EventStore::new("/s/event.map"));
        assert!(again.read_event_map_end() == end);
        let got2 = ok!(unsafe { again.get_event_by_offset(off) });
        assert!(got2.as_bytes()[k] == buf[k]);
        core::mem::forget(again);
    }
}

macro_rules! store_instance {
    ($name:ident, $S:expr, $l:expr, $e:expr, $grows:expr) => {
        #[kani::proof]
        #[kani::unwind(4)]
        #[kani::stub(core::panic::Location::caller, stub_caller)]
        #[kani::stub(<std::io::Error as std::fmt::Display>::fmt, stub_io_error_fmt)]
        #[kani::stub(<std::io::Error as std::string::ToString>::to_string, stub_io_to_string)]
        #[kani::stub(std::fs::File::set_len, stub_set_len)]
        #[kani::stub(std::fs::OpenOptions::open, stub_open)]
        #[kani::stub(std::fs::File::metadata, stub_metadata)]
        #[kani::stub(std::fs::Metadata::len, stub_metadata_len)]
        fn $name() {
            one_store::<$S>($l, $e, $grows, false);
        }
    };
}

// File length 256.  Event sizes 152 (minimum), 153, 159, 160.  `fits` = room to spare,
// `exact` = the event ends exactly at the end of the file, `grow` = one byte short.
//@ harness: c04_store_r0_fits c04_store_r3_fits c04_store_r7_exact c04_store_r0_exact c04_store_r1_grow c04_store_r0_grow
//@ tier: quick
//@ timeout: 1200
//@ mem: 20
//@ unwindset: mmap_append=170; one_store=110; prestate=110; memcmp.0=20
//@ cbmc: --max-field-sensitivity-array-size 1100
//@ encodes: EventStore::new, EventStore::store_event, EventStore::get_event_by_offset, EventStore::read_event_map_end
//@ bounds: one store_event from an existing 256-byte file whose end marker e has the residue named by the harness (r = e mod 8) with arbitrary bytes in [8, e) and an arbitrary event image of 152..160 bytes; fits / ends exactly at the file end / one byte short so the file grows by one chunk. Offset = e rounded up to 8, end = offset+len <= file length, read-back byte-identical (mapping and file), bytes below e unchanged, reopen gives the same end and bytes
//@ outside: e and the file length are concrete per instance (the code uses e only through e mod 8 and e+pad+len > L: that the instances partition the cases is an argument by reading); events larger than 160 bytes; OS-level durability
//@ assumes: mmap-append model = the real crate's contract (model/mmap-append; validated natively against pocket-db's own test-suite); File::set_len/metadata/OpenOptions::open stubbed onto the model file; <io::Error as Display>::fmt stubbed to the model's only message
store_instance!(c04_store_r0_fits, 152, 256, 16, false);
store_instance!(c04_store_r3_fits, 153, 256, 19, false);
store_instance!(c04_store_r7_exact, 160, 256, 95, false);
store_instance!(c04_store_r0_exact, 152, 256, 104, false);
store_instance!(c04_store_r1_grow, 159, 256, 97, true);
store_instance!(c04_store_r0_grow, 153, 256, 104, true);

//@ harness: c04_store_r1_fits c04_store_r2_fits c04_store_r4_fits c04_store_r5_fits c04_store_r6_fits c04_store_r7_fits c04_store_r2_grow c04_store_r5_grow c04_store_r4_exact
//@ tier: thorough
//@ timeout: 1200
//@ mem: 20
//@ unwindset: mmap_append=170; one_store=110; prestate=110; memcmp.0=20
//@ cbmc: --max-field-sensitivity-array-size 1100
//@ encodes: EventStore::new, EventStore::store_event, EventStore::get_event_by_offset
//@ bounds: as the quick instances, remaining residues
store_instance!(c04_store_r1_fits, 152, 256, 17, false);
store_instance!(c04_store_r2_fits, 159, 256, 18, false);
store_instance!(c04_store_r4_fits, 160, 256, 20, false);
store_instance!(c04_store_r5_fits, 153, 256, 21, false);
store_instance!(c04_store_r6_fits, 152, 256, 22, false);
store_instance!(c04_store_r7_fits, 152, 256, 23, false);
store_instance!(c04_store_r2_grow, 160, 256, 98, true);
store_instance!(c04_store_r5_grow, 152, 256, 101, true);
store_instance!(c04_store_r4_exact, 152, 256, 100, false);

//@ harness: c04_create_fresh
//@ tier: quick
//@ timeout: 900
//@ mem: 12
//@ covers: none
//@ unwindset: mmap_append=170; memcmp.0=20
//@ cbmc: --max-field-sensitivity-array-size 1100
//@ encodes: EventStore::new (creation path), EventStore::store_event
//@ bounds: no file yet: new() creates it with one chunk (256 bytes under the verification hook; 2048 in dev builds) and end marker 8; the first arbitrary 152-byte event is stored at offset 8 and reads back identical
#[kani::proof]
#[kani::unwind(4)]
#[kani::stub(core::panic::Location::caller, stub_caller)]
#[kani::stub(<std::io::Error as std::fmt::Display>::fmt, stub_io_error_fmt)]
#[kani::stub(<std::io::Error as std::string::ToString>::to_string, stub_io_to_string)]
#[kani::stub(std::fs::File::set_len, stub_set_len)]
#[kani::stub(std::fs::OpenOptions::open, stub_open)]
#[kani::stub(std::fs::File::metadata, stub_metadata)]
#[kani::stub(std::fs::Metadata::len, stub_metadata_len)]
fn c04_create_fresh() {
    let store = ok!(EventStore::new("/s/event.map"));
    assert!(mmap_append::verif::file_exists() && mmap_append::verif::file_len() == 256);
    assert!(store.read_event_map_end() == 8);
    let mut buf: [u8; 152] = kani::any();
    let ev = any_event::<152>(&mut buf);
    let off = ok!(store.store_event(ev));
    assert!(off == 8 && store.read_event_map_end() == 160);
    let got = ok!(unsafe { store.get_event_by_offset(8) });
    let k: usize = kani::any();
    kani::assume(k < 152);
    assert!(got.as_bytes()[k] == buf[k]);
    core::mem::forget(store);
}


/// history-based instances: from a fresh store, two or three arbitrary events of the given sizes
fn stores_from_fresh<const A: usize, const B: usize>(third: bool) {
    let store = super::verif_es_helper::fresh_event_store();
    let mut ba: [u8; A] = kani::any();
    let ea = any_event::<A>(&mut ba);
    let oa = ok!(store.store_event(ea));
    assert!(oa == 8);
    let mut bb: [u8; B] = kani::any();
    let eb = any_event::<B>(&mut bb);
    let ob = ok!(store.store_event(eb));
    let aligned = (8 + A + 7) / 8 * 8;
    assert!(ob == aligned);
    assert!(store.read_event_map_end() == ob + B);
    assert!(mmap_append::verif::file_len() >= ob + B);
    let ga = ok!(unsafe { store.get_event_by_offset(oa) });
    let gb = ok!(unsafe { store.get_event_by_offset(ob) });
    assert!(ga.as_bytes().len() == A && gb.as_bytes().len() == B);
    let k: usize = kani::any();
    kani::assume(k < A && k < B);
    kani::cover!(k == 151);
    assert!(ga.as_bytes()[k] == ba[k]);
    assert!(gb.as_bytes()[k] == bb[k]);
    if third {
        let mut bc: [u8; 152] = kani::any();
        let ec = any_event::<152>(&mut bc);
        let oc = ok!(store.store_event(ec));
        assert!(oc == (ob + B + 7) / 8 * 8 && oc > ob);
        let ga2 = ok!(unsafe { store.get_event_by_offset(oa) });
        let gc = ok!(unsafe { store.get_event_by_offset(oc) });
        assert!(ga2.as_bytes()[k] == ba[k]);
        assert!(gc.as_bytes()[k] == bc[k]);
    }
    core::mem::forget(store);
}

macro_rules! history_instance {
    ($name:ident, $A:expr, $B:expr, $third:expr) => {
        #[kani::proof]
        #[kani::unwind(4)]
        #[kani::stub(core::panic::Location::caller, stub_caller)]
        #[kani::stub(<std::io::Error as std::fmt::Display>::fmt, stub_io_error_fmt)]
        #[kani::stub(<std::io::Error as std::string::ToString>::to_string, stub_io_to_string)]
        #[kani::stub(std::fs::File::set_len, stub_set_len)]
        #[kani::stub(std::fs::OpenOptions::open, stub_open)]
        #[kani::stub(std::fs::File::metadata, stub_metadata)]
        #[kani::stub(std::fs::Metadata::len, stub_metadata_len)]
        fn $name() {
            stores_from_fresh::<$A, $B>($third);
        }
    };
}

//@ harness: c04_history_152_152 c04_history_153_152 c04_history_157_160
//@ tier: quick
//@ timeout: 1500
//@ mem: 14
//@ unwindset: mmap_append=170; memcmp.0=20
//@ cbmc: --max-field-sensitivity-array-size 1100
//@ encodes: EventStore::store_event (alignment padding, file growth + remap, retry loop), EventStore::get_event_by_offset
//@ bounds: from a fresh store (one 256-byte chunk under the hook), two arbitrary events of the sizes named by the harness: the second one needs alignment padding of 0/7/3 bytes and does not fit, so the file grows by a chunk and the mapping moves; offsets are 8 and the aligned end, both events read back byte-identical after the growth
//@ outside: event sizes other than the instances; more than one growth step
history_instance!(c04_history_152_152, 152, 152, false);
history_instance!(c04_history_153_152, 153, 152, false);
history_instance!(c04_history_157_160, 157, 160, false);

//@ harness: c04_history_three
//@ tier: thorough
//@ timeout: 2400
//@ mem: 16
//@ unwindset: mmap_append=170; memcmp.0=20
//@ cbmc: --max-field-sensitivity-array-size 1100
//@ encodes: EventStore::store_event, EventStore::get_event_by_offset
//@ bounds: three arbitrary events (153, 152, 152 bytes): the third fits after the growth; the first still reads back identical, offsets strictly increase
history_instance!(c04_history_three, 153, 152, true);

//@ harness: c04_reopen_then_grow
//@ tier: quick
//@ timeout: 1800
//@ mem: 16
//@ unwindset: mmap_append=800; memcmp.0=20; c04_reopen=50; file_set_len=600
//@ cbmc: --max-field-sensitivity-array-size 1100
//@ encodes: EventStore::new (existing multi-chunk file), EventStore::store_event (growth after reopen), EventStore::get_event_by_offset
//@ bounds: an existing file of three chunks (768 bytes) whose end marker is 640, with 40 arbitrary earlier bytes at 600..640, is opened with the real EventStore::new; an arbitrary 152-byte event is stored, which needs the file to grow: the file is then four chunks long (never shorter than before), the earlier bytes are unchanged, the new event reads back identical at offset 640
//@ outside: other file sizes; more than one growth after reopening
#[kani::proof]
#[kani::unwind(4)]
#[kani::stub(core::panic::Location::caller, stub_caller)]
#[kani::stub(<std::io::Error as std::fmt::Display>::fmt, stub_io_error_fmt)]
#[kani::stub(<std::io::Error as std::string::ToString>::to_string, stub_io_to_string)]
#[kani::stub(std::fs::File::set_len, stub_set_len)]
#[kani::stub(std::fs::OpenOptions::open, stub_open)]
#[kani::stub(std::fs::File::metadata, stub_metadata)]
#[kani::stub(std::fs::Metadata::len, stub_metadata_len)]
fn c04_reopen_then_grow() {
    mmap_append::verif::set_file(true, 768);
    let d = mmap_append::verif::data();
    d[0] = (640 & 0xff) as u8;
    d[1] = (640 >> 8) as u8;
    let mut before = [0u8; 40];
    let mut i = 0;
    while i < 40 {
        let b: u8 = kani::any();
        d[600 + i] = b;
        before[i] = b;
        i += 1;
    }
    let store = ok!(EventStore::new("/s/event.map"));
    assert!(store.read_event_map_end() == 640);
    let mut buf: [u8; 152] = kani::any();
    let ev = any_event::<152>(&mut buf);
    let off = ok!(store.store_event(ev));
    assert!(off == 640 && store.read_event_map_end() == 792);
    assert!(mmap_append::verif::file_len() == 1024);
    let k: usize = kani::any();
    kani::assume(k < 40);
    kani::cover!(k == 39);
    assert!(mmap_append::verif::data()[600 + k] == before[k]);
    let got = ok!(unsafe { store.get_event_by_offset(off) });
    let j: usize = kani::any();
    kani::assume(j < 152);
    assert!(got.as_bytes()[j] == buf[j]);
    core::mem::forget(store);
}
