//@@ property: C19
//@@ crate: types
//@@ mount: pocket-types/src/lib.rs
use crate::{Event, Filter, Id, Kind, Pubkey, Sig, Tags, Time};
include!("common.rs");
include!("img.rs");

fn ascii(b: &[u8]) -> &str {
    unsafe { core::str::from_utf8_unchecked(b) }
}

/// Tags::from_parts for [[a(1), b(2)], [c(0)], []] with arbitrary ASCII bytes, at the
/// concrete output lengths need-2 ..= need+1
//@ harness: c19_tags_from_parts_small
//@ tier: quick
//@ timeout: 900
//@ encodes: Tags::from_parts, Tags::output_size_needed, Tags::get_string, Tags::count
//@ bounds: parts [[s(1) s(2)] [s(0)] []] with arbitrary ASCII bytes, arbitrary prior buffer contents, output lengths need-2..=need+1: BufferTooSmall below need, otherwise the image equals the reference encoder's and the accessors return the parts in order
#[kani::proof]
#[kani::unwind(30)]
#[kani::stub(core::panic::Location::caller, stub_caller)]
fn c19_tags_from_parts_small() {
    let pool: [u8; 3] = kani::any();
    kani::assume(pool[0] < 0x80 && pool[1] < 0x80 && pool[2] < 0x80);
    let shape: [&[usize]; 3] = [&[1, 2], &[0], &[]];
    let mut reference = [0u8; 32];
    let need = enc_tags(&shape, &pool, &mut reference);
    let t0: [&str; 2] = [ascii(&pool[0..1]), ascii(&pool[1..3])];
    let t1: [&str; 1] = [""];
    let t2: [&str; 0] = [];
    let parts: [&[&str]; 3] = [&t0, &t1, &t2];
    assert!(Tags::output_size_needed(&parts) == need);
    let mut m = need - 2;
    while m <= need + 1 {
        let mut out: [u8; 32] = kani::any();
        let r = Tags::from_parts(&parts, &mut out[..m]);
        match r {
            Ok(tags) => {
                assert!(m >= need);
                let b = tags.as_bytes();
                assert!(b.len() == need);
                let i: usize = kani::any();
                kani::assume(i < need);
                assert!(b[i] == reference[i]);
                assert!(tags.count() == 3);
                assert!(tags.get_string(0, 0).unwrap()[0] == pool[0]);
                let s = tags.get_string(0, 1).unwrap();
                assert!(s.len() == 2 && s[0] == pool[1] && s[1] == pool[2]);
                assert!(tags.get_string(1, 0).unwrap().len() == 0);
                assert!(tags.get_string(1, 1).is_none() && tags.get_string(2, 0).is_none());
            }
            Err(e) => {
                assert!(m < need);
                core::mem::forget(e);
            }
        }
        m += 1;
    }
}

static BIG: [u8; 70_000] = [b'x'; 70_000];

//@ harness: c19_tags_from_parts_u16
//@ tier: thorough
//@ timeout: 3600
//@ mem: 16
//@ covers: none
//@ encodes: Tags::from_parts, Tags::output_size_needed
//@ bounds: parts [[s1 s2]] where s1, s2 are slices of a 70,000-byte string with arbitrary lengths 0..=70,000 each, 140 KB output buffer: if the constructor returns Ok, the value's byte length, first string length and second string length are the parts' (never truncated modulo 65,536)
//@ outside: string contents (constant); more than two strings
#[kani::proof]
#[kani::unwind(6)]
#[kani::stub(core::panic::Location::caller, stub_caller)]
fn c19_tags_from_parts_u16() {
    let l1: usize = kani::any();
    let l2: usize = kani::any();
    kani::assume(l1 <= 70_000 && l2 <= 70_000);
    let s1 = ascii(&BIG[..l1]);
    let s2 = ascii(&BIG[..l2]);
    let t0: [&str; 2] = [s1, s2];
    let parts: [&[&str]; 1] = [&t0];
    let mut out = vec![0u8; 140_100];
    let r = Tags::from_parts(&parts, &mut out);
    match r {
        Ok(tags) => {
            let need = 4 + 2 + 2 + 2 + l1 + 2 + l2;
            assert!(tags.as_bytes().len() == need);
            assert!(tags.count() == 1);
            let a = tags.get_string(0, 0);
            assert!(a.is_some() && a.unwrap().len() == l1);
            let b = tags.get_string(0, 1);
            assert!(b.is_some() && b.unwrap().len() == l2);
        }
        Err(e) => core::mem::forget(e),
    }
    core::mem::forget(out);
}

//@ harness: c19_event_from_parts
//@ tier: quick
//@ timeout: 1200
//@ mem: 12
//@ encodes: Event::from_parts, Event::output_size_needed, Event accessors
//@ bounds: arbitrary id, pubkey, sig, kind, created_at; tags [[s(1) s(2)] []] and a 2-byte content with arbitrary bytes; arbitrary prior buffer contents; output lengths need-1..=need+1: BufferTooSmall below need, otherwise the image equals the reference encoder's (padding bytes zero) and every accessor returns its part
#[kani::proof]
#[kani::unwind(70)]
#[kani::stub(core::panic::Location::caller, stub_caller)]
fn c19_event_from_parts() {
    let id: [u8; 32] = kani::any();
    let pk: [u8; 32] = kani::any();
    let sig: [u8; 64] = kani::any();
    let kind: u16 = kani::any();
    let at: u64 = kani::any();
    let pool: [u8; 3] = kani::any();
    let content: [u8; 2] = kani::any();
    let shape: [&[usize]; 2] = [&[1, 2], &[]];
    let mut tbuf = [0u8; 24];
    let tl = enc_tags(&shape, &pool, &mut tbuf);
    let tags = unsafe { Tags::delineate(&tbuf[..tl]) }.unwrap();
    let mut reference = [0u8; 200];
    let need = enc_event_img(kind, at, &id, &pk, &sig, &shape, &pool, &content, &mut reference);
    assert!(Event::output_size_needed(tl, 2) == need);
    let mut m = need - 1;
    while m <= need + 1 {
        let mut out: [u8; 200] = kani::any();
        let r = Event::from_parts(Id::from_bytes(id), Kind::from_u16(kind), Pubkey::from_bytes(pk), Sig::from_bytes(sig),
                                  tags, Time::from_u64(at), &content, &mut out[..m]);
        match r {
            Ok(ev) => {
                assert!(m >= need);
                let b = ev.as_bytes();
                assert!(b.len() == need);
                let i: usize = kani::any();
                kani::assume(i < need);
                kani::cover!(i == 7);
                assert!(b[i] == reference[i]);
                assert!(ev.kind().as_u16() == kind && ev.created_at().as_u64() == at);
                assert!(ev.id().as_slice()[31] == id[31] && ev.pubkey().as_slice()[0] == pk[0] && ev.sig().as_slice()[63] == sig[63]);
                let c = ev.content();
                assert!(c.len() == 2 && c[0] == content[0] && c[1] == content[1]);
                let t = ev.tags().unwrap();
                assert!(t.count() == 2 && t.get_string(0, 1).unwrap()[1] == pool[2]);
            }
            Err(e) => {
                assert!(m < need);
                core::mem::forget(e);
            }
        }
        m += 1;
    }
}

//@ harness: c19_filter_from_parts
//@ tier: quick
//@ timeout: 1200
//@ mem: 12
//@ encodes: Filter::from_parts, Filter::output_size_needed, Filter accessors
//@ bounds: 2 ids, 1 author, 2 kinds, tags [[s(1) s(2)]], since/until/limit each arbitrary and each present or absent (symbolic), arbitrary prior buffer contents; output lengths need-1..=need+1: BufferTooSmall below need, otherwise the accessors return the parts (absent = 0 / u64::MAX / u32::MAX) and padding bytes are zero
#[kani::proof]
#[kani::unwind(40)]
#[kani::stub(core::panic::Location::caller, stub_caller)]
fn c19_filter_from_parts() {
    let ids: [[u8; 32]; 2] = kani::any();
    let au: [u8; 32] = kani::any();
    let kinds: [u16; 2] = kani::any();
    let pool: [u8; 3] = kani::any();
    let shape: [&[usize]; 1] = [&[1, 2]];
    let mut tbuf = [0u8; 24];
    let tl = enc_tags(&shape, &pool, &mut tbuf);
    let tags = unsafe { Tags::delineate(&tbuf[..tl]) }.unwrap();
    let since: Option<u64> = kani::any();
    let until: Option<u64> = kani::any();
    let limit: Option<u32> = kani::any();
    let idv = [Id::from_bytes(ids[0]), Id::from_bytes(ids[1])];
    let auv = [Pubkey::from_bytes(au)];
    let kv = [Kind::from_u16(kinds[0]), Kind::from_u16(kinds[1])];
    let need = 32 + 64 + 32 + 4 + tl;
    assert!(Filter::output_size_needed(&idv, &auv, &kv, tags) == need);
    let mut m = need - 1;
    while m <= need + 1 {
        let mut out: [u8; 160] = kani::any();
        let r = Filter::from_parts(&idv, &auv, &kv, tags, since.map(Time::from_u64), until.map(Time::from_u64), limit, &mut out[..m]);
        match r {
            Ok(f) => {
                assert!(m >= need);
                assert!(f.len() == need && f.as_bytes()[10] == 0 && f.as_bytes()[11] == 0);
                assert!(f.num_ids() == 2 && f.num_authors() == 1 && f.num_kinds() == 2);
                let mut it = f.ids();
                assert!(it.next().unwrap().as_slice()[0] == ids[0][0]);
                assert!(it.next().unwrap().as_slice()[31] == ids[1][31]);
                assert!(it.next().is_none());
                assert!(f.authors().next().unwrap().as_slice()[5] == au[5]);
                let mut kt = f.kinds();
                assert!(kt.next().unwrap().as_u16() == kinds[0] && kt.next().unwrap().as_u16() == kinds[1] && kt.next().is_none());
                kani::cover!(since.is_none() && limit.is_some());
                assert!(f.since().as_u64() == since.unwrap_or(0));
                assert!(f.until().as_u64() == until.unwrap_or(u64::MAX));
                assert!(f.limit() == limit.unwrap_or(u32::MAX));
                let t = f.tags().unwrap();
                assert!(t.count() == 1 && t.get_string(0, 1).unwrap()[1] == pool[2] && t.get_string(0, 0).unwrap()[0] == pool[0]);
            }
            Err(e) => {
                assert!(m < need);
                core::mem::forget(e);
            }
        }
        m += 1;
    }
}
