// Helpers shared by the JSON-window harnesses (C01, C02, C07): symbolic *value* bytes
// placed into an otherwise concrete text, and the expected parts computed from them.
fn any_hex_digit() -> u8 {
    let c: u8 = kani::any();
    kani::assume((c >= b'0' && c <= b'9') || (c >= b'a' && c <= b'f') || (c >= b'A' && c <= b'F'));
    c
}
fn hex_val(c: u8) -> u8 {
    if c <= b'9' {
        c - b'0'
    } else if c >= b'a' {
        c - b'a' + 10
    } else {
        c - b'A' + 10
    }
}
fn any_digit() -> u8 {
    let c: u8 = kani::any();
    kani::assume(c >= b'0' && c <= b'9');
    c
}
/// printable ASCII that needs no escaping
fn any_plain() -> u8 {
    let c: u8 = kani::any();
    kani::assume(c >= 0x20 && c < 0x7f && c != b'"' && c != b'\\');
    c
}

/// The parts an event text denotes after the symbolic value bytes were patched in.
struct Expect {
    id: [u8; 32],
    pk: [u8; 32],
    sig: [u8; 64],
    kind: u32,
    at: u128,
    content0: u8,
    tagv0: u8,
}

/// Which single member carries symbolic value bytes.  Only ONE site per harness, and it is
/// the *last* member of the text: an early exit after a symbolic decision makes the read
/// position a non-constant for everything parsed afterwards (measured: > 10 min, > 14 GB
/// with several sites), so the symbolic decision has to be the last thing parsed.
#[derive(Clone, Copy, PartialEq)]
enum Site {
    Id,
    Pk,
    Sig,
    Kind,
    At,
    Content,
    TagV,
}

/// Patch the symbolic bytes of one site into `t`; return what the patched text denotes.
/// `kd`/`ad` = number of digits of kind / created_at in the skeleton.
fn patch_site(t: &mut [u8], site: Site, idp: usize, pkp: usize, sgp: usize, kp: usize, kd: usize, ap: usize, ad: usize,
              cp: usize, tp: usize, kind0: u32, at0: u128) -> Expect {
    let mut e = Expect { id: ID_BIN, pk: PK_BIN, sig: SIG_BIN, kind: kind0, at: at0, content0: b'h', tagv0: b'a' };
    match site {
        Site::Id => {
            let (a, b) = (any_hex_digit(), any_hex_digit());
            t[idp] = a;
            t[idp + 63] = b;
            e.id[0] = (hex_val(a) << 4) | (e.id[0] & 0x0f);
            e.id[31] = (e.id[31] & 0xf0) | hex_val(b);
        }
        Site::Pk => {
            let (a, b) = (any_hex_digit(), any_hex_digit());
            t[pkp] = a;
            t[pkp + 63] = b;
            e.pk[0] = (hex_val(a) << 4) | (e.pk[0] & 0x0f);
            e.pk[31] = (e.pk[31] & 0xf0) | hex_val(b);
        }
        Site::Sig => {
            let (a, b) = (any_hex_digit(), any_hex_digit());
            t[sgp] = a;
            t[sgp + 127] = b;
            e.sig[0] = (hex_val(a) << 4) | (e.sig[0] & 0x0f);
            e.sig[63] = (e.sig[63] & 0xf0) | hex_val(b);
        }
        Site::Kind => {
            e.kind = 0;
            let mut i = 0;
            while i < kd {
                let d = any_digit();
                if i == 0 {
                    kani::assume(d != b'0');
                }
                t[kp + i] = d;
                e.kind = e.kind * 10 + (d - b'0') as u32;
                i += 1;
            }
        }
        Site::At => {
            e.at = 0;
            let mut i = 0;
            while i < ad {
                let d = any_digit();
                if i == 0 {
                    kani::assume(d != b'0');
                }
                t[ap + i] = d;
                e.at = e.at * 10 + (d - b'0') as u128;
                i += 1;
            }
        }
        Site::Content => {
            let c = any_plain();
            t[cp] = c;
            e.content0 = c;
        }
        Site::TagV => {
            let v = any_plain();
            t[tp] = v;
            e.tagv0 = v;
        }
    }
    e
}

/// accessors == parts (tags [["e", v"b"], ["p"], []], content c"i\n")
fn check_event(ev: &crate::Event, e: &Expect) {
    assert!(ev.kind().as_u16() as u32 == e.kind);
    assert!(ev.created_at().as_u64() as u128 == e.at);
    let i: usize = kani::any();
    kani::assume(i < 32);
    assert!(ev.id().as_slice()[i] == e.id[i]);
    assert!(ev.pubkey().as_slice()[i] == e.pk[i]);
    let j: usize = kani::any();
    kani::assume(j < 64);
    assert!(ev.sig().as_slice()[j] == e.sig[j]);
    let c = ev.content();
    assert!(c.len() == 3 && c[0] == e.content0 && c[1] == b'i' && c[2] == b'\n');
    // (no `.unwrap()` on a Result: its failure path drags Debug formatting of the error type
    // and the drop glue of boxed errors into symbolic execution)
    let t = match ev.tags() {
        Ok(t) => t,
        Err(err) => {
            core::mem::forget(err);
            panic!("tags() failed on a successfully parsed event")
        }
    };
    assert!(t.count() == 3);
    let s00 = t.get_string(0, 0).unwrap();
    assert!(s00.len() == 1 && s00[0] == b'e');
    let s01 = t.get_string(0, 1).unwrap();
    assert!(s01.len() == 2 && s01[0] == e.tagv0 && s01[1] == b'b');
    assert!(t.get_string(0, 2).is_none());
    let s10 = t.get_string(1, 0).unwrap();
    assert!(s10.len() == 1 && s10[0] == b'p');
    assert!(t.get_string(1, 1).is_none() && t.get_string(2, 0).is_none() && t.get_string(3, 0).is_none());
    assert!(ev.len() == 144 + 26 + 4 + 3);
}
