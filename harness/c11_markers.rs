//@@ property: C11
//@@ crate: db
//@@ mount: pocket-db/src/lmdb/mod.rs
//@@ also: db_lmdb_helper.rs@pocket-db/src/lmdb/mod.rs
// Deletion markers at the Lmdb level (real pocket-db code over the heed model).
use super::*;
include!("common_db.rs");

fn lmdb() -> Lmdb {
    super::verif_db_lmdb_helper::verif_lmdb()
}

fn any_addr(dlen: usize) -> Addr {
    // first and last byte arbitrary: 32 arbitrary key bytes did not finish in 30 min
    let mut author = [0x11u8; 32];
    author[0] = kani::any();
    author[31] = kani::any();
    let kind: u16 = kani::any();
    let d: Vec<u8> = if dlen == 0 { Vec::new() } else { vec![kani::any(), kani::any()] };
    Addr { kind: Kind::from_u16(kind), author: Pubkey::from_bytes(author), d }
}

fn time_monotone(dlen: usize) {
    let l = lmdb();
    let addr = any_addr(dlen);
    let t1: u64 = kani::any();
    let t2: u64 = kani::any();
    // two accepted deletion requests for the same address, in arrival order t1 then t2
    {
        let mut txn = ok!(l.write_txn());
        ok!(l.mark_naddr_deleted(&mut txn, &addr, Time::from_u64(t1)));
        ok!(txn.commit());
    }
    let r1 = {
        let txn = ok!(l.read_txn());
        ok!(l.when_is_naddr_deleted(&txn, &addr))
    };
    assert!(r1 == Some(Time::from_u64(t1)));
    {
        let mut txn = ok!(l.write_txn());
        ok!(l.mark_naddr_deleted(&mut txn, &addr, Time::from_u64(t2)));
        ok!(txn.commit());
    }
    let r2 = {
        let txn = ok!(l.read_txn());
        ok!(l.when_is_naddr_deleted(&txn, &addr))
    };
    kani::cover!(t2 < t1);
    // the reported deletion time never decreases, whichever request arrives second
    let want = if t1 > t2 { t1 } else { t2 };
    assert!(r2 == Some(Time::from_u64(want)), "deletion time moved backwards");
    core::mem::forget(addr);
    core::mem::forget(l);
}

macro_rules! lm_harness {
    ($name:ident, $body:expr) => {
        #[kani::proof]
        #[kani::unwind(14)]
        #[kani::stub(core::panic::Location::caller, stub_caller)]
        #[kani::stub(std::hash::RandomState::new, stub_random_state)]
        fn $name() {
            $body
        }
    };
}

//@ harness: c11_naddr_time_monotone_d0 c11_naddr_time_monotone_d2
//@ tier: thorough
//@ timeout: 1800
//@ mem: 16
//@ unwindset: heed::bytes_=260; heed::Table=6; memcmp.0=80; repeat::Repeat=190; Repeat.*try_fold=190; any_addr=6
//@ cbmc: --max-field-sensitivity-array-size 300
//@ encodes: Lmdb::mark_naddr_deleted, Lmdb::when_is_naddr_deleted, Lmdb::key_naddr_index
//@ bounds: an arbitrary address (arbitrary kind, author with arbitrary first and last byte, d of 0 / 2 arbitrary bytes incl. NUL) and two address deletions with arbitrary times t1, t2 applied in that order (both arrival orders of an older and a newer request): after the first the reported time is t1, after the second it is max(t1, t2)
//@ assumes: heed model (put/get/commit)
lm_harness!(c11_naddr_time_monotone_d0, time_monotone(0));
lm_harness!(c11_naddr_time_monotone_d2, time_monotone(2));

//@ harness: c11_naddr_time_monotone_small
//@ tier: quick
//@ timeout: 700
//@ mem: 16
//@ unwindset: heed::bytes_=260; heed::Table=6; memcmp.0=80; repeat::Repeat=190; Repeat.*try_fold=190; any_addr=6
//@ cbmc: --max-field-sensitivity-array-size 300
//@ encodes: Lmdb::mark_naddr_deleted, Lmdb::when_is_naddr_deleted, Lmdb::key_naddr_index
//@ bounds: the address (30023, author A, d "x") and two address deletions with ARBITRARY 64-bit times t1, t2 applied in that order (so both arrival orders of an older and a newer request): after the first the reported time is t1, after the second it is max(t1, t2) - the deletion time never moves backwards
//@ outside: arbitrary addresses (thorough: c11_naddr_time_monotone_d0 / _d2)
//@ assumes: heed model (put/get/commit)
lm_harness!(c11_naddr_time_monotone_small, {
    let l = lmdb();
    let addr = Addr { kind: Kind::from_u16(30023), author: Pubkey::from_bytes([0x11u8; 32]), d: vec![b'x'] };
    let t1: u64 = kani::any();
    let t2: u64 = kani::any();
    {
        let mut txn = ok!(l.write_txn());
        ok!(l.mark_naddr_deleted(&mut txn, &addr, Time::from_u64(t1)));
        ok!(txn.commit());
    }
    let r1 = {
        let txn = ok!(l.read_txn());
        ok!(l.when_is_naddr_deleted(&txn, &addr))
    };
    assert!(r1 == Some(Time::from_u64(t1)));
    {
        let mut txn = ok!(l.write_txn());
        ok!(l.mark_naddr_deleted(&mut txn, &addr, Time::from_u64(t2)));
        ok!(txn.commit());
    }
    let r2 = {
        let txn = ok!(l.read_txn());
        ok!(l.when_is_naddr_deleted(&txn, &addr))
    };
    kani::cover!(t2 < t1);
    let want = if t1 > t2 { t1 } else { t2 };
    assert!(r2 == Some(Time::from_u64(want)), "deletion time moved backwards");
    core::mem::forget(addr);
    core::mem::forget(l);
});

fn marker_roundtrip(dlen: usize) {
    let l = lmdb();
    let addr = any_addr(dlen);
    let when: u64 = kani::any();
    let mut id = [0xA1u8; 32];
    id[0] = kani::any();
    id[31] = kani::any();
    let mut other = [0xA1u8; 32];
    other[0] = kani::any();
    other[31] = kani::any();
    {
        let mut txn = ok!(l.write_txn());
        ok!(l.mark_naddr_deleted(&mut txn, &addr, Time::from_u64(when)));
        ok!(l.mark_deleted(&mut txn, Id::from_bytes(id)));
        ok!(txn.commit());
    }
    {
        let txn = ok!(l.read_txn());
        assert!(ok!(l.is_deleted(&txn, Id::from_bytes(id))));
        let o = ok!(l.is_deleted(&txn, Id::from_bytes(other)));
        assert!(o == (other == id));
        core::mem::forget(txn);
    }
    // what a rebuild copies: the dumps must give back exactly what was marked
    let dump = ok!(l.dump_naddr_deleted());
    assert!(dump.len() == 1);
    let (a, w) = &dump[0];
    kani::cover!(dlen == 2 && addr.d[1] == 0);
    assert!(w.as_u64() == when);
    assert!(a.kind == addr.kind && a.author == addr.author);
    assert!(a.d.len() == dlen);
    let mut i = 0;
    while i < dlen {
        assert!(a.d[i] == addr.d[i]);
        i += 1;
    }
    let ids = ok!(l.dump_deleted());
    assert!(ids.len() == 1 && ids[0] == Id::from_bytes(id));
    core::mem::forget(dump);
    core::mem::forget(ids);
    core::mem::forget(addr);
    core::mem::forget(l);
}

//@ harness: c11_marker_roundtrip_d0 c11_marker_roundtrip_d2
//@ tier: thorough
//@ timeout: 1800
//@ mem: 16
//@ unwindset: heed::bytes_=260; heed::Table=6; memcmp.0=80; repeat::Repeat=190; Repeat.*try_fold=190; any_addr=6; marker_roundtrip=6
//@ cbmc: --max-field-sensitivity-array-size 300
//@ encodes: Lmdb::mark_naddr_deleted, Lmdb::mark_deleted, Lmdb::is_deleted, Lmdb::dump_naddr_deleted, Lmdb::dump_deleted, Lmdb::key_naddr_index
//@ bounds: one arbitrary address marker (arbitrary kind, author with arbitrary first and last byte, d of 0 / 2 arbitrary bytes incl. NUL, arbitrary 64-bit time) and one id marker (first and last byte arbitrary), probed with a second such id: is_deleted is true exactly for that id; dump_naddr_deleted / dump_deleted (what a rebuild copies) return exactly the marked address, time and id
//@ outside: d values longer than 2 bytes here; d longer than 182 bytes (key_naddr_index stores min(len,182) as the length byte but the whole d in the key: keys over LMDB's 511-byte limit are refused, 183..=476 bytes decode to a truncated d - by reading, recorded in DESIGN.md)
lm_harness!(c11_marker_roundtrip_d0, marker_roundtrip(0));
lm_harness!(c11_marker_roundtrip_d2, marker_roundtrip(2));
