//@@ property: C13
//@@ crate: db
//@@ mount: pocket-db/src/event_store.rs
//@@ also: es_helper.rs@pocket-db/src/event_store.rs
// Crash points as a symbolic variable: every persistent effect of the environment model
// (file creation, set_len, first/second half of an appended payload, end-marker store) is
// numbered; effects numbered >= CRASH_AT never happen (DESIGN.md, C13).
use super::*;
include!("common_db.rs");

fn any_event<const S: usize>(buf: &mut [u8; S]) -> &Event {
    let lb = (S as u32).to_ne_bytes();
    buf[0] = lb[0];
    buf[1] = lb[1];
    buf[2] = lb[2];
    buf[3] = lb[3];
    let s: &[u8] = &buf[..];
    unsafe { &*(s as *const [u8] as *const Event) }
}

fn marker() -> usize {
    let d = mmap_append::verif::data();
    (d[0] as usize) | (d[1] as usize) << 8 | (d[2] as usize) << 16 | (d[3] as usize) << 24
}

fn crash_in_second_store<const A: usize, const B: usize>() {
    let store = super::verif_es_helper::fresh_event_store();
    let mut ba: [u8; A] = kani::any();
    let ea = any_event::<A>(&mut ba);
    let oa = ok!(store.store_event(ea));
    assert!(oa == 8);
    let end_a = 8 + A;
    // the process is killed somewhere inside the next call
    let crash_at: u32 = kani::any();
    kani::assume(crash_at <= 8);
    unsafe {
        mmap_append::verif::STEP = 0;
        mmap_append::verif::CRASH_AT = crash_at;
    }
    let mut bb: [u8; B] = kani::any();
    let eb = any_event::<B>(&mut bb);
    let r = store.store_event(eb);
    core::mem::forget(r);
    core::mem::forget(store);
    // what a later process finds
    let m = marker();
    let flen = mmap_append::verif::file_len();
    let aligned = (end_a + 7) / 8 * 8;
    kani::cover!(m == end_a);
    kani::cover!(m == aligned + B);
    // the interrupted append is either invisible or complete
    assert!(m == end_a || m == aligned || m == aligned + B);
    assert!(m <= flen);
    let k: usize = kani::any();
    kani::assume(k < A && k < B);
    let d = mmap_append::verif::data();
    assert!(d[8 + k] == ba[k]); // the earlier event is intact
    if m == aligned + B {
        assert!(d[aligned + k] == bb[k]);
    }
    // and the file reopens at that end
    unsafe {
        mmap_append::verif::CRASH_AT = u32::MAX;
    }
    let again = ok!(EventStore::new("/s/event.map"));
    assert!(again.read_event_map_end() == m);
    core::mem::forget(again);
}

macro_rules! db_harness {
    ($name:ident, $body:expr) => {
        #[kani::proof]
        #[kani::unwind(4)]
        #[kani::stub(core::panic::Location::caller, stub_caller)]
        #[kani::stub(<std::io::Error as std::fmt::Display>::fmt, stub_io_error_fmt)]
        #[kani::stub(<std::io::Error as std::string::ToString>::to_string, stub_io_to_string)]
        #[kani::stub(std::fs::File::set_len, stub_set_len)]
        #[kani::stub(std::fs::OpenOptions::open, stub_open)]
        #[kani::stub(std::fs::File::metadata, stub_metadata)]
        #[kani::stub(std::fs::Metadata::len, stub_metadata_len)]
        #[kani::stub(<std::os::fd::OwnedFd as core::ops::Drop>::drop, stub_fd_drop)]
        fn $name() {
            $body
        }
    };
}

//@ harness: c13_crash_second_store_153_152 c13_crash_second_store_152_152
//@ tier: thorough
//@ timeout: 1800
//@ mem: 14
//@ unwindset: mmap_append=170; memcmp.0=20
//@ cbmc: --max-field-sensitivity-array-size 1100
//@ encodes: EventStore::store_event, EventStore::new, mmap-append model (append order: payload, fence, marker; set_len; remap)
//@ bounds: fresh store, one complete store of an arbitrary event, then a second store (which needs padding 7 / 0 and a file growth) killed at an arbitrary point 0..=8 of its persistent effects (padding payload halves, padding marker, set_len, event payload halves, event marker): afterwards the end marker is the old end, the aligned old end, or the complete new end; it never exceeds the file length; the first event is intact; the second is complete whenever the marker covers it; EventStore::new succeeds on the result and sees that end
//@ outside: kills during remove/vanish and LMDB's own crash safety (assumed contract); page-cache reordering by the OS (writes are taken to reach the file in program order); more than one interrupted call
//@ assumes: a store into the MAP_SHARED mapping survives a process kill (page cache); effects reach the file in program order
db_harness!(c13_crash_second_store_153_152, crash_in_second_store::<153, 152>());
db_harness!(c13_crash_second_store_152_152, crash_in_second_store::<152, 152>());

//@ harness: c13_crash_in_creation
//@ tier: quick
//@ timeout: 1800
//@ mem: 14
//@ unwindset: mmap_append=170; memcmp.0=20
//@ cbmc: --max-field-sensitivity-array-size 1100
//@ encodes: EventStore::new (creation: create, set_len, header initialisation), EventStore::store_event
//@ bounds: EventStore::new on a path without a file, killed at an arbitrary point 0..=3 of its persistent effects (file created / sized / header written); then a new process opens the same path: it must succeed and present an empty store whose end marker is 8 (anything below 8 makes the next append overwrite the header) in a one-chunk file
//@ assumes: as c13_crash_second_store
db_harness!(c13_crash_in_creation, {
    let crash_at: u32 = kani::any();
    kani::assume(crash_at <= 3);
    unsafe {
        mmap_append::verif::STEP = 0;
        mmap_append::verif::CRASH_AT = crash_at;
    }
    let first = EventStore::new("/s/event.map");
    core::mem::forget(first);
    unsafe {
        mmap_append::verif::CRASH_AT = u32::MAX;
    }
    kani::cover!(crash_at == 2);
    // the next process opens the same path
    let store = ok!(EventStore::new("/s/event.map"));
    // a store that holds nothing must start right after the 8-byte header, like any fresh
    // store: an end marker below 8 makes the next append overwrite the header itself
    assert!(store.read_event_map_end() == 8, "reopened half-created event file: end marker is not 8");
    assert!(marker() == 8 && mmap_append::verif::file_len() == 256);
    core::mem::forget(store);
});
