//@@ property: C04
//@@ crate: db
//@@ mount: pocket-db/src/event_store.rs
// EventStore-level harnesses over the mmap-append / std::fs environment model
// (DESIGN.md 2.3).  One step of `store_event` from an arbitrary valid file state.
use super::*;
include!("common_db.rs");

/// Pre-state: an existing file of length `l` whose end marker is `e`; bytes in [8, e)
/// are arbitrary (whatever earlier history wrote), bytes at and beyond `e` are zero.
fn prestate(l: usize, e: usize) {
    let f = mmap_append::verif::file();
    f.exists = true;
    f.len = l;
    let eb = e.to_le_bytes();
    let mut i = 0;
    while i < 8 {
        f.data[i] = eb[i];
        i += 1;
    }
    i = 8;
    while i < e {
        f.data[i] = kani::any();
        i += 1;
    }
}

/// an arbitrary event image of exactly `S` bytes (arbitrary contents, consistent length prefix)
fn any_event<const S: usize>(buf: &mut [u8; S]) -> &Event {
    let lb = (S as u32).to_ne_bytes();
    buf[0] = lb[0];
    buf[1] = lb[1];
    buf[2] = lb[2];
    buf[3] = lb[3];
    ok!(unsafe { Event::delineate(&buf[..]) })
}

/// one store from pre-state (l, e) of an arbitrary S-byte event
fn one_store<const S: usize>(l: usize, e: usize, grows: bool) {
    prestate(l, e);
    let mut before = [0u8; 128];
    let mut i = 8;
    while i < e {
        before[i] = mmap_append::verif::file().data[i];
        i += 1;
    }
    let store = ok!(EventStore::new("/s/event.map"));
    assert!(store.read_event_map_end() == e);
    let mut buf: [u8; S] = kani::any();
    let ev = any_event::<S>(&mut buf);
    let off = ok!(store.store_event(ev));
    let aligned = (e + 7) / 8 * 8;
    // returned offset: at or after the old end, 8-aligned, never inside earlier data
    assert!(off == aligned && off >= e && off % 8 == 0);
    // new end marker = offset + len, inside the (possibly enlarged) file
    let end = store.read_event_map_end();
    assert!(end == off + S);
    let flen = mmap_append::verif::file().len;
    assert!(end <= flen);
    assert!(flen == if grows { l + 2048 } else { l });
    // read back byte-identical
    let got = ok!(unsafe { store.get_event_by_offset(off) });
    assert!(got.as_bytes().len() == S);
    let k: usize = kani::any();
    kani::assume(k < S);
    kani::cover!(k == S - 1);
    assert!(got.as_bytes()[k] == buf[k]);
    // every byte below the old end is unchanged, in the file and in the mapping
    let j: usize = kani::any();
    kani::assume(j >= 8 && j < e);
    assert!(mmap_append::verif::file().data[j] == before[j]);
    assert!(store.event_map[j] == before[j]);
    // the bytes are durable in the file as well
    assert!(mmap_append::verif::file().data[off + k] == buf[k]);
    // reopen: same end, same bytes
    core::mem::forget(store);
    let again = ok!(EventStore::new("/s/event.map"));
    assert!(again.read_event_map_end() == end);
    let got2 = ok!(unsafe { again.get_event_by_offset(off) });
    assert!(got2.as_bytes()[k] == buf[k]);
    core::mem::forget(again);
}

macro_rules! store_instance {
    ($name:ident, $S:expr, $l:expr, $e:expr, $grows:expr) => {
        #[kani::proof]
        #[kani::unwind(20)]
        #[kani::stub(core::panic::Location::caller, stub_caller)]
        #[kani::stub(<std::io::Error as std::fmt::Display>::fmt, stub_io_error_fmt)]
        #[kani::stub(std::fs::File::set_len, stub_set_len)]
        #[kani::stub(std::fs::OpenOptions::open, stub_open)]
        #[kani::stub(std::fs::File::metadata, stub_metadata)]
        #[kani::stub(std::fs::Metadata::len, stub_metadata_len)]
        fn $name() {
            one_store::<$S>($l, $e, $grows);
        }
    };
}

// File length 256.  Event sizes 152 (minimum), 153, 159, 160.  `fits` = room to spare,
// `exact` = the event ends exactly at the end of the file, `grow` = one byte short.
//@ harness: c04_store_r0_fits c04_store_r3_fits c04_store_r7_exact c04_store_r0_exact c04_store_r1_grow c04_store_r0_grow
//@ tier: quick
//@ timeout: 1200
//@ mem: 12
//@ unwindset: mmap_append=170; one_store=110; prestate=110
//@ encodes: EventStore::new, EventStore::store_event, EventStore::get_event_by_offset, EventStore::read_event_map_end
//@ bounds: one store_event from an existing 256-byte file whose end marker e has the residue named by the harness (r = e mod 8) with arbitrary bytes in [8, e) and an arbitrary event image of 152..160 bytes; fits / ends exactly at the file end / one byte short so the file grows by one chunk. Offset = e rounded up to 8, end = offset+len <= file length, read-back byte-identical (mapping and file), bytes below e unchanged, reopen gives the same end and bytes
//@ outside: e and the file length are concrete per instance (the code uses e only through e mod 8 and e+pad+len > L: that the instances partition the cases is an argument by reading); events larger than 160 bytes; OS-level durability
//@ assumes: mmap-append model = the real crate's contract (model/mmap-append; validated natively against pocket-db's own test-suite); File::set_len/metadata/OpenOptions::open stubbed onto the model file; <io::Error as Display>::fmt stubbed to the model's only message
store_instance!(c04_store_r0_fits, 152, 256, 16, false);
store_instance!(c04_store_r3_fits, 153, 256, 19, false);
store_instance!(c04_store_r7_exact, 160, 256, 95, false);
store_instance!(c04_store_r0_exact, 152, 256, 104, false);
store_instance!(c04_store_r1_grow, 159, 256, 97, true);
store_instance!(c04_store_r0_grow, 153, 256, 104, true);

//@ harness: c04_store_r1_fits c04_store_r2_fits c04_store_r4_fits c04_store_r5_fits c04_store_r6_fits c04_store_r7_fits c04_store_r2_grow c04_store_r5_grow c04_store_r4_exact
//@ tier: thorough
//@ timeout: 1200
//@ mem: 12
//@ unwindset: mmap_append=170; one_store=110; prestate=110
//@ encodes: EventStore::new, EventStore::store_event, EventStore::get_event_by_offset
//@ bounds: as the quick instances, remaining residues
store_instance!(c04_store_r1_fits, 152, 256, 17, false);
store_instance!(c04_store_r2_fits, 159, 256, 18, false);
store_instance!(c04_store_r4_fits, 160, 256, 20, false);
store_instance!(c04_store_r5_fits, 153, 256, 21, false);
store_instance!(c04_store_r6_fits, 152, 256, 22, false);
store_instance!(c04_store_r7_fits, 152, 256, 23, false);
store_instance!(c04_store_r2_grow, 160, 256, 98, true);
store_instance!(c04_store_r5_grow, 152, 256, 101, true);
store_instance!(c04_store_r4_exact, 152, 256, 100, false);

//@ harness: c04_create_fresh
//@ tier: quick
//@ timeout: 900
//@ mem: 12
//@ covers: none
//@ unwindset: mmap_append=170
//@ encodes: EventStore::new (creation path), EventStore::store_event
//@ bounds: no file yet: new() creates it with one chunk (2048 bytes in the dev profile) and end marker 8; the first arbitrary 152-byte event is stored at offset 8 and reads back identical
#[kani::proof]
#[kani::unwind(20)]
#[kani::stub(core::panic::Location::caller, stub_caller)]
#[kani::stub(<std::io::Error as std::fmt::Display>::fmt, stub_io_error_fmt)]
#[kani::stub(std::fs::File::set_len, stub_set_len)]
#[kani::stub(std::fs::OpenOptions::open, stub_open)]
#[kani::stub(std::fs::File::metadata, stub_metadata)]
#[kani::stub(std::fs::Metadata::len, stub_metadata_len)]
fn c04_create_fresh() {
    let store = ok!(EventStore::new("/s/event.map"));
    assert!(mmap_append::verif::file().exists && mmap_append::verif::file().len == 2048);
    assert!(store.read_event_map_end() == 8);
    let mut buf: [u8; 152] = kani::any();
    let ev = any_event::<152>(&mut buf);
    let off = ok!(store.store_event(ev));
    assert!(off == 8 && store.read_event_map_end() == 160);
    let got = ok!(unsafe { store.get_event_by_offset(8) });
    let k: usize = kani::any();
    kani::assume(k < 152);
    assert!(got.as_bytes()[k] == buf[k]);
    core::mem::forget(store);
}
