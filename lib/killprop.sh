#!/bin/bash
# usage: killprop.sh C07   -- ends every ./check run of that property (driver, cargo-kani, cbmc of its run dir)
P=$1
for d in /proc/[0-9]*; do
  pid=${d#/proc/}
  [ "$pid" = "$$" ] && continue
  [ "$pid" = "$PPID" ] && continue
  cl=$(tr '\0' ' ' < $d/cmdline 2>/dev/null) || continue
  case "$cl" in
    *"killprop.sh"*) ;;
    *"python3 ./check $P "*|*"python3 ./check $P") kill $pid 2>/dev/null; echo "killed driver $pid";;
    *"/run-$P-"*) kill $pid 2>/dev/null; echo "killed $pid";;
  esac
done
