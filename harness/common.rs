// Shared prelude, `include!`d by every harness module.
// Kani does not support the `caller_location` intrinsic that every
// `InnerError::X.into()` reaches; the location is never observed by a property.
static VERIF_DUMMY_LOC: [u64; 4] = [0; 4];
pub fn stub_caller<'a>() -> &'static core::panic::Location<'a> {
    unsafe { &*(VERIF_DUMMY_LOC.as_ptr() as *const core::panic::Location<'a>) }
}

/// Copy a constant text into a (longer) local array element by element, in place.
/// A `copy_from_slice`, a by-value array copy or an array returned from a function is a
/// memcpy for the symbolic executor, after which not a single byte of the text is recognised
/// as a constant any more and the whole parse forks on every character (measured: > 20 min
/// and > 14 GB instead of 2 min).
macro_rules! copy_text {
    ($dst:ident, $src:expr) => {{
        let mut copy_text_i = 0;
        while copy_text_i < $src.len() {
            $dst[copy_text_i] = $src[copy_text_i];
            copy_text_i += 1;
        }
    }};
}
