//@@ property: C07
//@@ crate: types
//@@ mount: pocket-types/src/lib.rs
use crate::{Filter, Id, Kind, Pubkey, Tags, Time};
include!("common.rs");
include!("texts.rs");
include!("jsonsym.rs");
include!("img.rs");

struct FExpect {
    id: [u8; 32],
    pk: [u8; 32],
    kind: u32,
    since: u128,
    until: u128,
    limit: u128,
    tagv: u8,
}

/// accessors of the filter denoted by FL1 / FL2 (tag constraints compared as a set)
fn fcheck(f: &Filter, e: &FExpect, e_first: &[u8], e_second: &[u8]) {
    assert!(f.num_ids() == 1 && f.num_authors() == 1 && f.num_kinds() == 2);
    let i: usize = kani::any();
    kani::assume(i < 32);
    assert!(f.ids().next().unwrap().as_slice()[i] == e.id[i]);
    assert!(f.authors().next().unwrap().as_slice()[i] == e.pk[i]);
    let mut k = f.kinds();
    assert!(k.next().unwrap().as_u16() == 1);
    assert!(k.next().unwrap().as_u16() as u32 == e.kind);
    assert!(f.since().as_u64() as u128 == e.since);
    assert!(f.until().as_u64() as u128 == e.until);
    // limit: exact when it fits, saturated (never wrapped) when it does not
    if e.limit <= u32::MAX as u128 {
        assert!(f.limit() as u128 == e.limit);
    } else {
        assert!(f.limit() == u32::MAX);
    }
    let t = match f.tags() {
        Ok(t) => t,
        Err(err) => {
            core::mem::forget(err);
            panic!("tags")
        }
    };
    assert!(t.count() == 2);
    let (ie, ip) = if t.get_string(0, 0).unwrap()[0] == b'e' { (0, 1) } else { (1, 0) };
    let n = t.get_string(ie, 0).unwrap();
    assert!(n.len() == 1 && n[0] == b'e');
    let v0 = t.get_string(ie, 1).unwrap();
    assert!(v0.len() == e_first.len() && v0[0] == e_first[0]);
    let v1 = t.get_string(ie, 2).unwrap();
    assert!(v1.len() == e_second.len() && v1[0] == e_second[0]);
    assert!(t.get_string(ie, 3).is_none());
    let p = t.get_string(ip, 0).unwrap();
    assert!(p.len() == 1 && p[0] == b'P');
    assert!(t.get_string(ip, 1).is_none());
}

macro_rules! filter_text {
    ($name:ident, $T:ident, $end:expr) => {
        #[kani::proof]
        #[kani::unwind(8)]
        #[kani::stub(core::panic::Location::caller, stub_caller)]
        fn $name() {
            let e = FExpect { id: ID_BIN, pk: PK_BIN, kind: 30023, since: 1111111111, until: 2222222222, limit: 3333333333, tagv: b'a' };
            let mut out: [u8; 200] = kani::any();
            match Filter::from_json($T, &mut out) {
                Ok((consumed, written, f)) => {
                    kani::cover!(true);
                    assert!(consumed == $end && written == f.len());
                    fcheck(f, &e, b"ab", b"c");
                }
                Err(err) => {
                    core::mem::forget(err);
                    panic!("valid filter text rejected");
                }
            }
        }
    };
}

//@ harness: c07_text_compact
//@ tier: quick
//@ timeout: 900
//@ mem: 12
//@ unwindset: read_id=34; read_pubkey=34; read_hex=66; memcmp.0=34; memchr=12; read_u64=24; burn_string=30; eat_whitespace=6; burn_number=12; json_unescape=8; parse_json_filter=72; c07_=12
//@ encodes: Filter::from_json, parse_json_filter, read_id, read_pubkey, read_u64, json_unescape, Filter accessors
//@ bounds: the compact text {ids,authors,kinds,since,until,limit(3333333333: above 2^32 is not, this one fits),#e,#P} - constant, arbitrary prior buffer contents: accepted, consumed = length, accessors return the denoted values, tag constraints as a set
//@ outside: the text is constant (see c01_event_json.rs header); arbitrary integers: c01_kernel_read_u64 and c07_limit_saturates
filter_text!(c07_text_compact, FL1, FL1.len());

//@ harness: c07_text_reordered_ws_unknown
//@ tier: thorough
//@ timeout: 3000
//@ mem: 12
//@ unwindset: read_id=34; read_pubkey=34; read_hex=66; memcmp.0=34; memchr=12; read_u64=24; burn_string=30; eat_whitespace=6; burn_number=12; json_unescape=8; parse_json_filter=72; c07_=12
//@ encodes: Filter::from_json, parse_json_filter, burn_key_and_value_after_quote, burn_value, burn_array, burn_object, burn_number, eat_whitespace_and_commas
//@ bounds: the same filter in another member order, whitespace of all four kinds in the gaps and three unknown members (string with escapes/brackets, nested array/object/null, negative exponent number) - constant text, arbitrary prior buffer: same verdict and same accessor values as the compact text
filter_text!(c07_text_reordered_ws_unknown, FL2, FL2_END);

//@ harness: c07_text_bracket_in_tag_value
//@ tier: quick
//@ timeout: 900
//@ mem: 12
//@ unwindset: read_id=34; read_pubkey=34; read_hex=66; memcmp.0=34; memchr=12; read_u64=24; burn_string=30; eat_whitespace=6; eat_whitespace_and_commas=6; burn_array=6; burn_number=12; json_unescape=8; parse_json_filter=72; c07_=12
//@ encodes: Filter::from_json, parse_json_filter (first pass over a tag member: burn_array; second pass: json_unescape), Filter accessors
//@ bounds: the filter {"#t":["x]}","[{"],"limit":7,"since":1111111111,"until":2222222222} and the same members with the tag member last (constant texts, arbitrary prior buffer): a closing bracket / brace inside a tag VALUE does not end the array or the object - both orders are accepted with consumed = length, limit 7, since/until as written, and the constraint t:[x]} , [{]
//@ outside: the texts are constant
#[kani::proof]
#[kani::unwind(8)]
#[kani::stub(core::panic::Location::caller, stub_caller)]
fn c07_text_bracket_in_tag_value() {
    let texts: [&[u8]; 2] = [FB1, FB2];
    let mut i = 0;
    while i < 2 {
        let mut out: [u8; 96] = kani::any();
        match Filter::from_json(texts[i], &mut out) {
            Ok((consumed, written, f)) => {
                kani::cover!(i == 1);
                assert!(consumed == texts[i].len() && written == f.len());
                assert!(f.limit() == 7 && f.since().as_u64() == 1111111111 && f.until().as_u64() == 2222222222);
                assert!(f.num_ids() == 0 && f.num_authors() == 0 && f.num_kinds() == 0);
                let t = match f.tags() {
                    Ok(t) => t,
                    Err(err) => {
                        core::mem::forget(err);
                        panic!("tags")
                    }
                };
                assert!(t.count() == 1);
                assert!(t.get_string(0, 0).unwrap() == b"t");
                let v0 = t.get_string(0, 1).unwrap();
                assert!(v0.len() == 3 && v0[0] == b'x' && v0[1] == b']' && v0[2] == b'}');
                let v1 = t.get_string(0, 2).unwrap();
                assert!(v1.len() == 2 && v1[0] == b'[' && v1[1] == b'{');
                assert!(t.get_string(0, 3).is_none());
            }
            Err(err) => {
                core::mem::forget(err);
                panic!("valid filter text rejected");
            }
        }
        i += 1;
    }
}

//@ harness: c07_limit_saturates
//@ tier: quick
//@ timeout: 900
//@ mem: 12
//@ unwindset: read_id=34; read_pubkey=34; read_hex=66; memcmp.0=34; memchr=12; read_u64=24; burn_string=30; eat_whitespace=6; burn_number=12; json_unescape=8; parse_json_filter=72; c07_=12
//@ encodes: parse_json_filter (limit), read_u64
//@ bounds: {"kinds":[1],"limit":L,"since":18446744073709551615} for L = 2^32-1, 2^32 and 2^64-1 (constant texts, arbitrary prior buffer): limit() is L when it fits and u32::MAX otherwise - never L mod 2^32; since() is 2^64-1
#[kani::proof]
#[kani::unwind(8)]
#[kani::stub(core::panic::Location::caller, stub_caller)]
fn c07_limit_saturates() {
    let texts: [&[u8]; 3] = [FLIM_MAX, FLIM_OVER, FLIM_BIG];
    let mut i = 0;
    while i < 3 {
        let mut out: [u8; 64] = kani::any();
        match Filter::from_json(texts[i], &mut out) {
            Ok((consumed, _w, f)) => {
                kani::cover!(i == 2);
                assert!(consumed == texts[i].len());
                assert!(f.limit() == u32::MAX);
                assert!(f.since().as_u64() == u64::MAX);
                assert!(f.num_kinds() == 1);
            }
            Err(err) => {
                core::mem::forget(err);
                panic!("valid filter text rejected");
            }
        }
        i += 1;
    }
}

fn is_letter(c: u8) -> bool {
    (c >= b'A' && c <= b'Z') || (c >= b'a' && c <= b'z')
}

//@ harness: c07_tag_letter_pairs_concrete
//@ tier: quick
//@ timeout: 1200
//@ mem: 12
//@ unwindset: read_id=34; read_pubkey=34; read_hex=66; memcmp.0=34; memchr=12; read_u64=24; burn_string=30; eat_whitespace=6; burn_number=12; json_unescape=8; parse_json_filter=72; c07_=12
//@ encodes: parse_json_filter (tag-letter dispatch, duplicate bitmap), Filter::tags
//@ bounds: the texts {"#X":["a"],"#Y":["b"]} for the ordered letter pairs (e,a) (a,e) (A,e) (e,A) (z,Z) (Z,z) (A,B) (p,q) - bitmap index 0, both index orders, both alphabets' last letters - constant texts, arbitrary prior buffer: each is accepted with exactly the two constraints in text order
//@ outside: the other 2696 ordered pairs here; all letters at once are attempted by the thorough harness c07_tag_letter_symbolic
#[kani::proof]
#[kani::unwind(10)]
#[kani::stub(core::panic::Location::caller, stub_caller)]
fn c07_tag_letter_pairs_concrete() {
    let texts: [&[u8]; 8] = [FPAIR_0, FPAIR_1, FPAIR_2, FPAIR_3, FPAIR_4, FPAIR_5, FPAIR_6, FPAIR_7];
    let mut i = 0;
    while i < 8 {
        let (x, y) = FPAIR_LETTERS[i];
        let mut out: [u8; 64] = kani::any();
        match Filter::from_json(texts[i], &mut out) {
            Ok((consumed, _w, f)) => {
                kani::cover!(i == 7);
                assert!(consumed == 23);
                let t = match f.tags() {
                    Ok(t) => t,
                    Err(err) => {
                        core::mem::forget(err);
                        panic!("tags")
                    }
                };
                assert!(t.count() == 2);
                assert!(t.get_string(0, 0).unwrap()[0] == x && t.get_string(0, 1).unwrap()[0] == b'a');
                assert!(t.get_string(1, 0).unwrap()[0] == y && t.get_string(1, 1).unwrap()[0] == b'b');
            }
            Err(err) => {
                core::mem::forget(err);
                panic!("distinct tag letters rejected");
            }
        }
        i += 1;
    }
}

//@ harness: c07_tag_letter_symbolic
//@ tier: thorough
//@ timeout: 3000
//@ mem: 20
//@ unwindset: read_id=34; read_pubkey=34; read_hex=66; memcmp.0=34; memchr=12; read_u64=24; burn_string=30; eat_whitespace=6; burn_number=12; json_unescape=8; parse_json_filter=72; c07_=12
//@ encodes: parse_json_filter (tag-letter dispatch, duplicate bitmap), Filter::tags
//@ bounds: the texts {"#X":["a"],"#e":["b"]} and {"#e":["b"],"#X":["a"]} with X an arbitrary letter (all 52 in one query): both orders have the same verdict; X != e is accepted with exactly the two constraints; X == e is rejected as a duplicate
//@ outside: two symbolic letters at once (did not finish: > 10 min, 16 GB)
#[kani::proof]
#[kani::unwind(10)]
#[kani::stub(core::panic::Location::caller, stub_caller)]
fn c07_tag_letter_symbolic() {
    let x: u8 = kani::any();
    kani::assume(is_letter(x));
    let t1 = [b'{', b'"', b'#', x, b'"', b':', b'[', b'"', b'a', b'"', b']', b',', b'"', b'#', b'e', b'"', b':', b'[', b'"', b'b', b'"', b']', b'}'];
    let t2 = [b'{', b'"', b'#', b'e', b'"', b':', b'[', b'"', b'b', b'"', b']', b',', b'"', b'#', x, b'"', b':', b'[', b'"', b'a', b'"', b']', b'}'];
    let mut o1 = [0u8; 64];
    let mut o2 = [0u8; 64];
    let r1 = Filter::from_json(&t1, &mut o1);
    let r2 = Filter::from_json(&t2, &mut o2);
    kani::cover!(x == b'a');
    match (r1, r2) {
        (Ok((c1, _, f1)), Ok((c2, _, f2))) => {
            assert!(x != b'e');
            assert!(c1 == 23 && c2 == 23);
            let (ta, tb) = match (f1.tags(), f2.tags()) {
                (Ok(a), Ok(b)) => (a, b),
                (a, b) => {
                    core::mem::forget(a);
                    core::mem::forget(b);
                    panic!("tags")
                }
            };
            assert!(ta.count() == 2 && tb.count() == 2);
            assert!(ta.get_string(0, 0).unwrap()[0] == x && tb.get_string(1, 0).unwrap()[0] == x);
        }
        (Err(a), Err(b)) => {
            assert!(x == b'e');
            core::mem::forget(a);
            core::mem::forget(b);
        }
        (a, b) => {
            core::mem::forget(a);
            core::mem::forget(b);
            panic!("acceptance depends on member order");
        }
    }
}

/// reference escaper for one ASCII byte, as in C02
fn ref_escape(c: u8, out: &mut [u8; 6]) -> usize {
    let two = |out: &mut [u8; 6], x: u8| {
        out[0] = b'\\';
        out[1] = x;
        2
    };
    match c {
        0x08 => two(out, b'b'),
        0x09 => two(out, b't'),
        0x0A => two(out, b'n'),
        0x0C => two(out, b'f'),
        0x0D => two(out, b'r'),
        0x22 => two(out, b'"'),
        0x5C => two(out, b'\\'),
        _ if c < 0x20 => {
            let hexd = |n: u8| if n < 10 { b'0' + n } else { b'a' + (n - 10) };
            out[0] = b'\\';
            out[1] = b'u';
            out[2] = b'0';
            out[3] = b'0';
            out[4] = hexd(c >> 4);
            out[5] = hexd(c & 15);
            6
        }
        _ => {
            out[0] = c;
            1
        }
    }
}

fn stub_format(_a: core::fmt::Arguments<'_>) -> String {
    String::new()
}

fn as_json_text(v: u8, w: u8, with_ints: bool) {
    let pool = [b'e', v, w];
    let shape: [&[usize]; 1] = [&[1, 1, 1]];
    let mut tbuf = [0u8; 24];
    let tl = enc_tags(&shape, &pool, &mut tbuf);
    let ts: &[u8] = &tbuf[..tl];
    let tags: &Tags = unsafe { &*(ts as *const [u8] as *const Tags) };
    let mut fbuf = [0u8; 64];
    let kinds = [Kind::from_u16(7)];
    let r = if with_ints {
        Filter::from_parts(&[], &[], &kinds, tags, Some(Time::from_u64(5)), None, Some(3), &mut fbuf)
    } else {
        Filter::from_parts(&[], &[], &[], tags, None, None, None, &mut fbuf)
    };
    let f = match r {
        Ok(f) => f,
        Err(e) => {
            core::mem::forget(e);
            panic!("from_parts")
        }
    };
    let json = match f.as_json() {
        Ok(j) => j,
        Err(e) => {
            core::mem::forget(e);
            panic!("as_json")
        }
    };
    let mut r = [0u8; 80];
    let mut p = 0;
    let push = |r: &mut [u8; 80], p: &mut usize, s: &[u8]| {
        let mut i = 0;
        while i < s.len() {
            r[*p] = s[i];
            *p += 1;
            i += 1;
        }
    };
    if with_ints {
        push(&mut r, &mut p, b"{\"kinds\":[7],\"#e\":[\"");
    } else {
        push(&mut r, &mut p, b"{\"#e\":[\"");
    }
    let mut eb = [0u8; 6];
    let l = ref_escape(v, &mut eb);
    push(&mut r, &mut p, &eb[..l]);
    push(&mut r, &mut p, b"\",\"");
    let l = ref_escape(w, &mut eb);
    push(&mut r, &mut p, &eb[..l]);
    if with_ints {
        push(&mut r, &mut p, b"\"],\"limit\":3,\"since\":5}");
    } else {
        push(&mut r, &mut p, b"\"]}");
    }
    kani::cover!(v == b'"' && w == b'\\');
    assert!(json.len() == p);
    let i: usize = kani::any();
    kani::assume(i < p);
    assert!(json[i] == r[i]);
    core::mem::forget(json);
}

//@ harness: c07_as_json_text
//@ tier: thorough
//@ timeout: 1500
//@ mem: 12
//@ unwindset: read_id=34; read_pubkey=34; read_hex=66; memcmp.0=34; memchr=12; read_u64=24; burn_string=30; eat_whitespace=6; burn_number=12; json_unescape=8; parse_json_filter=72; c07_=90; json_escape=8; enc_tags=6; put_bytes=8; push=90
//@ encodes: Filter::as_json, json_escape, Filter::from_parts
//@ bounds: a filter built by Filter::from_parts with only the tag constraint e:[v w] where v, w are single arbitrary ASCII bytes 0x20..=0x7f (quote and backslash included): as_json produces exactly the reference writer's text {"#e":["v","w"]} with canonical NIP-01 escapes. Control characters (the format! path of json_escape) are excluded by assumption, which is what makes stubbing std::fmt::format sound here; they are decided on instances (c07_as_json_roundtrip_ctl, c07_as_json_text_ints)
//@ outside: non-ASCII values, control characters and integers through format! (thorough: c07_as_json_text_ints), ids/authors (hex writer is covered by C03/C20 kernels)
//@ assumes: std::fmt::format stubbed (unreachable under the harness assumption v, w >= 0x20)
#[kani::proof]
#[kani::unwind(8)]
#[kani::stub(core::panic::Location::caller, stub_caller)]
#[kani::stub(std::fmt::format, stub_format)]
fn c07_as_json_text() {
    let v: u8 = kani::any();
    let w: u8 = kani::any();
    kani::assume(v >= 0x20 && v < 0x80 && w >= 0x20 && w < 0x80);
    as_json_text(v, w, false);
}

//@ harness: c07_as_json_text_qb
//@ tier: quick
//@ timeout: 700
//@ mem: 12
//@ unwindset: read_id=34; read_pubkey=34; read_hex=66; memcmp.0=34; memchr=12; read_u64=24; burn_string=30; eat_whitespace=6; burn_number=12; json_unescape=8; parse_json_filter=72; c07_=90; json_escape=8; enc_tags=6; put_bytes=8; push=90
//@ encodes: Filter::as_json, json_escape, Filter::from_parts
//@ bounds: the tags-only filter e:[v w] built by Filter::from_parts with (v, w) = (quote, backslash): as_json produces exactly the reference writer's text {"#e":["v","w"]} with canonical NIP-01 escapes
//@ outside: two arbitrary values at once and control characters (thorough: c07_as_json_text, c07_as_json_text_ints)
//@ assumes: std::fmt::format stubbed (unreachable: no control characters in these instances)
#[kani::proof]
#[kani::unwind(8)]
#[kani::stub(core::panic::Location::caller, stub_caller)]
#[kani::stub(std::fmt::format, stub_format)]
fn c07_as_json_text_qb() {
    as_json_text(b'"', b'\\', false);
}
//@ harness: c07_as_json_text_v
//@ tier: thorough
//@ timeout: 3000
//@ mem: 16
//@ unwindset: read_id=34; read_pubkey=34; read_hex=66; memcmp.0=34; memchr=12; read_u64=24; burn_string=30; eat_whitespace=6; burn_number=12; json_unescape=8; parse_json_filter=72; c07_=90; json_escape=8; enc_tags=6; put_bytes=8; push=90
//@ encodes: Filter::as_json, json_escape, Filter::from_parts
//@ bounds: as c07_as_json_text_qb with v an ARBITRARY printable ASCII byte 0x20..=0x7e and w = 'a' (did not finish in 700 s)
//@ assumes: std::fmt::format stubbed (unreachable: no control characters)
#[kani::proof]
#[kani::unwind(8)]
#[kani::stub(core::panic::Location::caller, stub_caller)]
#[kani::stub(std::fmt::format, stub_format)]
fn c07_as_json_text_v() {
    let v: u8 = kani::any();
    kani::assume(v >= 0x20 && v < 0x7f);
    as_json_text(v, b'a', false);
}

//@ harness: c07_escaped_text_parses_to_parts_image
//@ tier: quick
//@ timeout: 700
//@ mem: 12
//@ unwindset: read_id=34; read_pubkey=34; read_hex=66; memcmp.0=34; memchr=12; read_u64=24; burn_string=30; eat_whitespace=6; eat_whitespace_and_commas=6; burn_array=6; burn_number=12; json_unescape=8; parse_json_filter=72; c07_=90; enc_tags=6; put_bytes=8
//@ encodes: Filter::from_json, Filter::from_parts
//@ bounds: the constant text {"#e":["\"","\\"]} - which c07_as_json_text_qb decides to be what as_json writes for the filter e:[quote, backslash] - parsed into a buffer with arbitrary prior contents is byte-identical to that filter as built by from_parts: together the two harnesses give the as_json/from_json round trip on an escape-needing filter without carrying a heap string through the parser (the one-query form is c07_as_json_roundtrip_qb, thorough)
#[kani::proof]
#[kani::unwind(8)]
#[kani::stub(core::panic::Location::caller, stub_caller)]
fn c07_escaped_text_parses_to_parts_image() {
    let pool = [b'e', b'"', b'\\'];
    let shape: [&[usize]; 1] = [&[1, 1, 1]];
    let mut tbuf = [0u8; 24];
    let tl = enc_tags(&shape, &pool, &mut tbuf);
    let ts: &[u8] = &tbuf[..tl];
    let tags: &Tags = unsafe { &*(ts as *const [u8] as *const Tags) };
    let mut fbuf = [0u8; 64];
    let f = match Filter::from_parts(&[], &[], &[], tags, None, None, None, &mut fbuf) {
        Ok(f) => f,
        Err(e) => {
            core::mem::forget(e);
            panic!("from_parts")
        }
    };
    let flen = f.len();
    let mut out: [u8; 64] = kani::any();
    let (consumed, written, f2) = match Filter::from_json(FESC, &mut out) {
        Ok(x) => x,
        Err(e) => {
            core::mem::forget(e);
            panic!("the library's own JSON spelling is rejected")
        }
    };
    kani::cover!(true);
    assert!(consumed == FESC.len() && written == flen);
    let k: usize = kani::any();
    kani::assume(k < flen);
    assert!(f2.as_bytes()[k] == fbuf[k]);
}

//@ harness: c07_as_json_text_ints
//@ tier: thorough
//@ timeout: 3600
//@ mem: 16
//@ unwindset: read_id=34; read_pubkey=34; read_hex=66; memcmp.0=34; memchr=12; read_u64=24; burn_string=30; eat_whitespace=6; burn_number=12; json_unescape=8; parse_json_filter=72; c07_=90; json_escape=8; enc_tags=6; put_bytes=8; push=90
//@ encodes: Filter::as_json, json_escape, Filter::from_parts, core::fmt (real integer and \\u00XX formatting)
//@ bounds: the filter kinds [7], since 5, limit 3, e:[v w] with v, w arbitrary ASCII bytes 0x00..=0x7f (control characters included, real format! code): as_json equals the reference writer's text
#[kani::proof]
#[kani::unwind(8)]
#[kani::stub(core::panic::Location::caller, stub_caller)]
fn c07_as_json_text_ints() {
    let v: u8 = kani::any();
    let w: u8 = kani::any();
    kani::assume(v < 0x80 && w < 0x80);
    as_json_text(v, w, true);
}

fn as_json_roundtrip(v: u8, w: u8) {
    let pool = [b'e', v, w];
    let shape: [&[usize]; 1] = [&[1, 1, 1]];
    let mut tbuf = [0u8; 24];
    let tl = enc_tags(&shape, &pool, &mut tbuf);
    let ts: &[u8] = &tbuf[..tl];
    let tags: &Tags = unsafe { &*(ts as *const [u8] as *const Tags) };
    let mut fbuf = [0u8; 64];
    let f = match Filter::from_parts(&[], &[], &[], tags, None, None, None, &mut fbuf) {
        Ok(f) => f,
        Err(e) => {
            core::mem::forget(e);
            panic!("from_parts")
        }
    };
    let flen = f.len();
    let json = match f.as_json() {
        Ok(j) => j,
        Err(e) => {
            core::mem::forget(e);
            panic!("as_json")
        }
    };
    let mut out: [u8; 64] = kani::any();
    let (consumed, written, f2) = match Filter::from_json(&json, &mut out) {
        Ok(x) => x,
        Err(e) => {
            core::mem::forget(e);
            panic!("own JSON rejected")
        }
    };
    assert!(consumed == json.len() && written == flen);
    let k: usize = kani::any();
    kani::assume(k < flen);
    assert!(f2.as_bytes()[k] == fbuf[k]);
    core::mem::forget(json);
}

macro_rules! rt_instance {
    ($name:ident, $v:expr, $w:expr) => {
        #[kani::proof]
        #[kani::unwind(8)]
        #[kani::stub(core::panic::Location::caller, stub_caller)]
        fn $name() {
            as_json_roundtrip($v, $w);
        }
    };
}

//@ harness: c07_as_json_roundtrip_qb c07_as_json_roundtrip_nl
//@ tier: thorough
//@ timeout: 1200
//@ mem: 12
//@ covers: none
//@ unwindset: read_id=34; read_pubkey=34; read_hex=66; memcmp.0=34; memchr=12; read_u64=24; burn_string=30; eat_whitespace=6; burn_number=12; json_unescape=8; parse_json_filter=72; c07_=12; json_escape=8; enc_tags=6; put_bytes=8
//@ encodes: Filter::from_parts, Filter::as_json, Filter::from_json
//@ bounds: the tags-only filter e:[v w] with (v, w) = (quote, backslash) / (newline, 'z'): as_json then from_json into a buffer with arbitrary prior contents gives a byte-identical filter
//@ outside: symbolic values through the parser (symbolic escape lengths move the read position); the \\u00XX spelling (thorough: c07_as_json_roundtrip_ctl)
rt_instance!(c07_as_json_roundtrip_qb, b'"', b'\\');
rt_instance!(c07_as_json_roundtrip_nl, b'\n', b'z');

//@ harness: c07_as_json_roundtrip_ctl
//@ tier: thorough
//@ timeout: 3000
//@ mem: 14
//@ covers: none
//@ unwindset: read_id=34; read_pubkey=34; read_hex=66; memcmp.0=34; memchr=12; read_u64=24; burn_string=30; eat_whitespace=6; burn_number=12; json_unescape=8; parse_json_filter=72; c07_=12; json_escape=8; enc_tags=6; put_bytes=8
//@ encodes: Filter::from_parts, Filter::as_json, Filter::from_json, core::fmt
//@ bounds: the same with (v, w) = (0x01, 'a'): the control character is written as \\u0001 through format! and read back
rt_instance!(c07_as_json_roundtrip_ctl, 0x01, b'a');
