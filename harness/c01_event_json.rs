//@@ property: C01
//@@ crate: types
//@@ mount: pocket-types/src/lib.rs
// Event::from_json against the parts a text was rendered from.  Every text in texts.rs is
// checked at generation time (lib/gen_texts.py) to be valid JSON denoting those parts for an
// independent parser (Python's json module).
//
// What is symbolic, and why so little: CBMC's symbolic executor only keeps *fully constant*
// arrays as constants, so a single arbitrary byte in a 300-byte text turns every later read of
// the text into a symbolic read and the parse does not finish (measured: one arbitrary digit in
// the last member: > 8 min and > 4 GB, against 45 s for the constant text; raising
// --max-field-sensitivity-array-size did not help).  Arbitrary *input bytes* are therefore
// confined to the kernels (integer readers, string unescaper, hex reader - this file and C03),
// and the member-level harnesses run on constant texts with an arbitrary prior output buffer.
use crate::json::json_parse::{read_kind, read_u64};
use crate::Event;
include!("common.rs");
include!("texts.rs");
include!("jsonsym.rs");

macro_rules! ev_text {
    ($name:ident, $T:ident, $end:expr) => {
        #[kani::proof]
        #[kani::unwind(8)]
        #[kani::stub(core::panic::Location::caller, stub_caller)]
        fn $name() {
            let e = Expect { id: ID_BIN, pk: PK_BIN, sig: SIG_BIN, kind: 30023, at: 1681778790, content0: b'h', tagv0: b'a' };
            let mut out: [u8; 200] = kani::any();
            match Event::from_json($T, &mut out) {
                Ok((consumed, ev)) => {
                    kani::cover!(true);
                    assert!(consumed == $end);
                    check_event(ev, &e);
                }
                Err(err) => {
                    core::mem::forget(err);
                    panic!("valid event text rejected");
                }
            }
        }
    };
}

//@ harness: c01_text_unknown_first
//@ tier: quick
//@ timeout: 1200
//@ mem: 12
//@ unwindset: read_sig=66; read_id=34; read_pubkey=34; read_hex=66; memcmp.0=34; memchr=12; read_u64=24; read_kind=10; burn_string=30; eat_whitespace=6; burn_number=12; json_unescape=64; check_event=4; parse_json_event=14
//@ encodes: Event::from_json, parse_json_event (deferred content), burn_key_and_value_after_quote, burn_string, burn_value, burn_number, eat_whitespace
//@ bounds: compact order-1 text preceded by one unknown string member whose value ends in an escaped backslash ("zz":"q\\"); arbitrary prior contents of the output buffer. Accepted; consumed = length; every accessor equals the denoted part
//@ outside: the text itself is constant (see the header of this file)
ev_text!(c01_text_unknown_first, L5, L5.len());

//@ harness: c01_text_unknown_zero_numbers
//@ tier: thorough
//@ timeout: 3000
//@ mem: 12
//@ unwindset: read_sig=66; read_id=34; read_pubkey=34; read_hex=66; memcmp.0=34; memchr=34; read_u64=24; read_kind=10; burn_string=30; eat_whitespace=6; eat_whitespace_and_commas=6; burn_number=12; burn_array=6; json_unescape=64; check_event=4; parse_json_event=20
//@ encodes: Event::from_json, parse_json_event, burn_key_and_value_after_quote, burn_value, burn_number, burn_array
//@ bounds: the compact order-1 text with five unknown members in the middle whose values are the numbers 0, 0.5, -0, 0e0, 1E+2 (the RFC 8259 number forms with a leading zero, and an upper-case exponent); arbitrary prior contents of the output buffer. Accepted; consumed = length; every accessor equals the denoted part
//@ outside: the text itself is constant (see the header of this file); arbitrary numbers are decided on the skipper itself (c01_kernel_burn_number)
ev_text!(c01_text_unknown_zero_numbers, L6, L6.len());

//@ harness: c01_text_ws_unknown_small
//@ tier: thorough
//@ timeout: 3000
//@ mem: 12
//@ unwindset: read_sig=66; read_id=34; read_pubkey=34; read_hex=66; memcmp.0=34; memchr=12; read_u64=24; read_kind=10; burn_string=30; eat_whitespace=6; burn_number=12; json_unescape=64; check_event=4; parse_json_event=14
//@ encodes: Event::from_json, parse_json_event (deferred content), burn_key_and_value_after_quote, burn_string, burn_value, burn_number, eat_whitespace
//@ bounds: order kind,content,sig,tags,created_at,pubkey,id (content before tags: deferred content) with whitespace around colons and commas, an unknown string member first whose value ends in an escaped backslash ("q\"\\"), and an unknown negative-exponent number last; arbitrary prior contents of the output buffer. Accepted; consumed = length; every accessor equals the denoted part
//@ outside: the text itself is constant (see the header of this file)
ev_text!(c01_text_ws_unknown_small, L4, L4.len());

//@ harness: c01_text_ws_unknown_deferred
//@ tier: thorough
//@ timeout: 3000
//@ mem: 20
//@ unwindset: read_sig=66; read_id=34; read_pubkey=34; read_hex=66; memcmp.0=34; memchr=12; read_u64=24; read_kind=10; burn_string=30; eat_whitespace=6; burn_number=12; json_unescape=64; check_event=4; parse_json_event=14
//@ encodes: Event::from_json, parse_json_event, read_id, read_pubkey, read_sig, read_kind, read_u64, read_tags_array, count_tags, read_tag, read_content, json_unescape, burn_key_and_value_after_quote, burn_value
//@ bounds: 575-byte text, order kind,content,sig,tags,created_at,pubkey,id (content before tags: deferred content), all four whitespace bytes in every gap incl. inside the tag arrays, three unknown members (first: a string with escapes and brackets that ends in an escaped backslash; middle: negative exponent number, nested arrays/objects with true/false/null; last: an object whose keys look like event members), one trailing byte after the object; arbitrary prior contents of the 200-byte output buffer. Accepted; consumed = offset just past the closing brace; id, pubkey, sig (every byte), kind, created_at, content and the three tags equal the parts the text denotes
//@ outside: the text itself is constant (see the header of this file); other member orders / whitespace placements / unknown-member shapes
ev_text!(c01_text_ws_unknown_deferred, L2, L2_END);

//@ harness: c01_text_ws_tags_last
//@ tier: quick
//@ timeout: 900
//@ mem: 12
//@ unwindset: read_sig=66; read_id=34; read_pubkey=34; read_hex=66; memcmp.0=34; memchr=12; read_u64=24; read_kind=10; burn_string=30; eat_whitespace=6; burn_number=12; json_unescape=64; check_event=4; parse_json_event=14
//@ encodes: Event::from_json, parse_json_event, read_id, read_pubkey, read_sig, read_kind, read_u64, read_tags_array, count_tags, read_tag, read_content, json_unescape, burn_key_and_value_after_quote, burn_value
//@ bounds: order pubkey,kind,id,content,created_at,sig,tags (tags last, content deferred to the very end) with whitespace in every gap; arbitrary prior contents of the 200-byte output buffer. Accepted; consumed = offset just past the closing brace; id, pubkey, sig (every byte), kind, created_at, content and the three tags equal the parts the text denotes
//@ outside: the text itself is constant (see the header of this file); other member orders / whitespace placements / unknown-member shapes
ev_text!(c01_text_ws_tags_last, L3, L3.len() - 1);

//@ harness: c01_text_order_m1
//@ tier: quick
//@ timeout: 900
//@ mem: 12
//@ unwindset: read_sig=66; read_id=34; read_pubkey=34; read_hex=66; memcmp.0=34; memchr=12; read_u64=24; read_kind=10; burn_string=30; eat_whitespace=6; burn_number=12; json_unescape=64; check_event=4; parse_json_event=14
//@ encodes: Event::from_json, parse_json_event, read_id, read_pubkey, read_sig, read_kind, read_u64, read_tags_array, count_tags, read_tag, read_content, json_unescape, burn_key_and_value_after_quote, burn_value
//@ bounds: compact text, member order id,pubkey,created_at,kind,tags,content,sig (each member is last in one of the seven orders; content before and after tags); arbitrary prior contents of the 200-byte output buffer. Accepted; consumed = offset just past the closing brace; id, pubkey, sig (every byte), kind, created_at, content and the three tags equal the parts the text denotes
//@ outside: the text itself is constant (see the header of this file); other member orders / whitespace placements / unknown-member shapes
ev_text!(c01_text_order_m1, M1, M1.len());

//@ harness: c01_text_order_m2
//@ tier: seeded
//@ group: member_order
//@ timeout: 900
//@ mem: 12
//@ unwindset: read_sig=66; read_id=34; read_pubkey=34; read_hex=66; memcmp.0=34; memchr=12; read_u64=24; read_kind=10; burn_string=30; eat_whitespace=6; burn_number=12; json_unescape=64; check_event=4; parse_json_event=14
//@ encodes: Event::from_json, parse_json_event, read_id, read_pubkey, read_sig, read_kind, read_u64, read_tags_array, count_tags, read_tag, read_content, json_unescape, burn_key_and_value_after_quote, burn_value
//@ bounds: compact text, member order kind,content,sig,tags,created_at,pubkey,id (each member is last in one of the seven orders; content before and after tags); arbitrary prior contents of the 200-byte output buffer. Accepted; consumed = offset just past the closing brace; id, pubkey, sig (every byte), kind, created_at, content and the three tags equal the parts the text denotes
//@ outside: the text itself is constant (see the header of this file); other member orders / whitespace placements / unknown-member shapes
ev_text!(c01_text_order_m2, M2, M2.len());

//@ harness: c01_text_order_m3
//@ tier: seeded
//@ group: member_order
//@ timeout: 900
//@ mem: 12
//@ unwindset: read_sig=66; read_id=34; read_pubkey=34; read_hex=66; memcmp.0=34; memchr=12; read_u64=24; read_kind=10; burn_string=30; eat_whitespace=6; burn_number=12; json_unescape=64; check_event=4; parse_json_event=14
//@ encodes: Event::from_json, parse_json_event, read_id, read_pubkey, read_sig, read_kind, read_u64, read_tags_array, count_tags, read_tag, read_content, json_unescape, burn_key_and_value_after_quote, burn_value
//@ bounds: compact text, member order sig,id,tags,pubkey,kind,created_at,content (each member is last in one of the seven orders; content before and after tags); arbitrary prior contents of the 200-byte output buffer. Accepted; consumed = offset just past the closing brace; id, pubkey, sig (every byte), kind, created_at, content and the three tags equal the parts the text denotes
//@ outside: the text itself is constant (see the header of this file); other member orders / whitespace placements / unknown-member shapes
ev_text!(c01_text_order_m3, M3, M3.len());

//@ harness: c01_text_order_m4
//@ tier: quick
//@ timeout: 900
//@ mem: 12
//@ unwindset: read_sig=66; read_id=34; read_pubkey=34; read_hex=66; memcmp.0=34; memchr=12; read_u64=24; read_kind=10; burn_string=30; eat_whitespace=6; burn_number=12; json_unescape=64; check_event=4; parse_json_event=14
//@ encodes: Event::from_json, parse_json_event, read_id, read_pubkey, read_sig, read_kind, read_u64, read_tags_array, count_tags, read_tag, read_content, json_unescape, burn_key_and_value_after_quote, burn_value
//@ bounds: compact text, member order content,id,pubkey,sig,kind,tags,created_at (each member is last in one of the seven orders; content before and after tags); arbitrary prior contents of the 200-byte output buffer. Accepted; consumed = offset just past the closing brace; id, pubkey, sig (every byte), kind, created_at, content and the three tags equal the parts the text denotes
//@ outside: the text itself is constant (see the header of this file); other member orders / whitespace placements / unknown-member shapes
ev_text!(c01_text_order_m4, M4, M4.len());

//@ harness: c01_text_order_m5
//@ tier: seeded
//@ group: member_order
//@ timeout: 900
//@ mem: 12
//@ unwindset: read_sig=66; read_id=34; read_pubkey=34; read_hex=66; memcmp.0=34; memchr=12; read_u64=24; read_kind=10; burn_string=30; eat_whitespace=6; burn_number=12; json_unescape=64; check_event=4; parse_json_event=14
//@ encodes: Event::from_json, parse_json_event, read_id, read_pubkey, read_sig, read_kind, read_u64, read_tags_array, count_tags, read_tag, read_content, json_unescape, burn_key_and_value_after_quote, burn_value
//@ bounds: compact text, member order tags,created_at,id,content,sig,pubkey,kind (each member is last in one of the seven orders; content before and after tags); arbitrary prior contents of the 200-byte output buffer. Accepted; consumed = offset just past the closing brace; id, pubkey, sig (every byte), kind, created_at, content and the three tags equal the parts the text denotes
//@ outside: the text itself is constant (see the header of this file); other member orders / whitespace placements / unknown-member shapes
ev_text!(c01_text_order_m5, M5, M5.len());

//@ harness: c01_text_order_m6
//@ tier: seeded
//@ group: member_order
//@ timeout: 900
//@ mem: 12
//@ unwindset: read_sig=66; read_id=34; read_pubkey=34; read_hex=66; memcmp.0=34; memchr=12; read_u64=24; read_kind=10; burn_string=30; eat_whitespace=6; burn_number=12; json_unescape=64; check_event=4; parse_json_event=14
//@ encodes: Event::from_json, parse_json_event, read_id, read_pubkey, read_sig, read_kind, read_u64, read_tags_array, count_tags, read_tag, read_content, json_unescape, burn_key_and_value_after_quote, burn_value
//@ bounds: compact text, member order pubkey,kind,id,content,created_at,sig,tags (each member is last in one of the seven orders; content before and after tags); arbitrary prior contents of the 200-byte output buffer. Accepted; consumed = offset just past the closing brace; id, pubkey, sig (every byte), kind, created_at, content and the three tags equal the parts the text denotes
//@ outside: the text itself is constant (see the header of this file); other member orders / whitespace placements / unknown-member shapes
ev_text!(c01_text_order_m6, M6, M6.len());

//@ harness: c01_text_order_m7
//@ tier: seeded
//@ group: member_order
//@ timeout: 900
//@ mem: 12
//@ unwindset: read_sig=66; read_id=34; read_pubkey=34; read_hex=66; memcmp.0=34; memchr=12; read_u64=24; read_kind=10; burn_string=30; eat_whitespace=6; burn_number=12; json_unescape=64; check_event=4; parse_json_event=14
//@ encodes: Event::from_json, parse_json_event, read_id, read_pubkey, read_sig, read_kind, read_u64, read_tags_array, count_tags, read_tag, read_content, json_unescape, burn_key_and_value_after_quote, burn_value
//@ bounds: compact text, member order created_at,sig,kind,id,tags,content,pubkey (each member is last in one of the seven orders; content before and after tags); arbitrary prior contents of the 200-byte output buffer. Accepted; consumed = offset just past the closing brace; id, pubkey, sig (every byte), kind, created_at, content and the three tags equal the parts the text denotes
//@ outside: the text itself is constant (see the header of this file); other member orders / whitespace placements / unknown-member shapes
ev_text!(c01_text_order_m7, M7, M7.len());

fn digits_value(d: &[u8], n: usize) -> u128 {
    let mut v: u128 = 0;
    let mut i = 0;
    while i < n {
        v = v * 10 + (d[i] - b'0') as u128;
        i += 1;
    }
    v
}

//@ harness: c01_kernel_read_u64
//@ tier: quick
//@ timeout: 900
//@ mem: 12
//@ unwindset: read_u64=24; digits_value=24; c01_kernel=24; memchr=12
//@ encodes: json_parse::read_u64 (created_at; also since/until/limit of filters)
//@ bounds: every digit string of length 0..=21 (symbolic length, arbitrary digits, leading zeros allowed) followed by an arbitrary non-digit byte: Ok(v) iff there is at least one digit and the value < 2^64, then v is the exact value and the position is just past the digits; otherwise an error - never a wrapped value, never a panic
#[kani::proof]
#[kani::unwind(8)]
#[kani::stub(core::panic::Location::caller, stub_caller)]
fn c01_kernel_read_u64() {
    let mut t: [u8; 22] = kani::any();
    let n: usize = kani::any();
    kani::assume(n <= 21);
    let mut i = 0;
    while i < n {
        kani::assume(t[i] >= b'0' && t[i] <= b'9');
        i += 1;
    }
    kani::assume(!(t[n] >= b'0' && t[n] <= b'9'));
    let v = digits_value(&t, n);
    let mut pos = 0;
    match read_u64(&t[..n + 1], &mut pos) {
        Ok(got) => {
            kani::cover!(n == 20);
            assert!(n >= 1 && v <= u64::MAX as u128);
            assert!(got as u128 == v && pos == n);
        }
        Err(e) => {
            kani::cover!(n == 20);
            assert!(n == 0 || v > u64::MAX as u128);
            core::mem::forget(e);
        }
    }
}

//@ harness: c01_kernel_read_kind
//@ tier: quick
//@ timeout: 900
//@ mem: 12
//@ unwindset: read_kind=12; digits_value=12; c01_kernel=12; memchr=12
//@ encodes: json_parse::read_kind
//@ bounds: every digit string of length 0..=11 (symbolic length, arbitrary digits) followed by an arbitrary non-digit byte: Ok(k) iff there is at least one digit and the value <= 65535, then k is the exact value; otherwise an error - never wrapped into a u16, never a panic (10 and 11 digits overflow a u32 accumulator)
#[kani::proof]
#[kani::unwind(8)]
#[kani::stub(core::panic::Location::caller, stub_caller)]
fn c01_kernel_read_kind() {
    let mut t: [u8; 12] = kani::any();
    let n: usize = kani::any();
    kani::assume(n <= 11);
    let mut i = 0;
    while i < n {
        kani::assume(t[i] >= b'0' && t[i] <= b'9');
        i += 1;
    }
    kani::assume(!(t[n] >= b'0' && t[n] <= b'9'));
    let v = digits_value(&t, n);
    let mut pos = 0;
    match read_kind(&t[..n + 1], &mut pos) {
        Ok(got) => {
            kani::cover!(v == 65535);
            assert!(n >= 1 && v <= 65535);
            assert!(got as u128 == v && pos == n);
        }
        Err(e) => {
            kani::cover!(v == 65536);
            assert!(n == 0 || v > 65535);
            core::mem::forget(e);
        }
    }
}

//@ harness: c01_text_escapes
//@ tier: quick
//@ timeout: 900
//@ mem: 12
//@ unwindset: read_sig=66; read_id=34; read_pubkey=34; read_hex=66; memcmp.0=34; memchr=12; read_u64=24; read_kind=10; burn_string=30; eat_whitespace=6; burn_number=12; json_unescape=64; check_event=4; parse_json_event=14
//@ encodes: json_unescape, next_code_point, encode_utf8, read_content
//@ bounds: content written as \n \" \\ \/ \b \f \r \t \u00e9 \u20AC \u000a followed by literal 2-, 3- and 4-byte characters and `/x` (a constant text, arbitrary prior buffer): content() equals the 25 bytes an independent parser extracts (computed at generation time). Arbitrary string bytes are decided on the unescaper itself (C03: c03_unescape_arb3, c03_unescape_uescape)
//@ outside: surrogate \u escapes (excluded by the property)
#[kani::proof]
#[kani::unwind(8)]
#[kani::stub(core::panic::Location::caller, stub_caller)]
fn c01_text_escapes() {
    let mut out: [u8; 220] = kani::any();
    match Event::from_json(LS, &mut out) {
        Ok((consumed, ev)) => {
            kani::cover!(true);
            assert!(consumed == LS.len());
            let c = ev.content();
            assert!(c.len() == LS_EXPECT.len());
            let i: usize = kani::any();
            kani::assume(i < LS_EXPECT.len());
            assert!(c[i] == LS_EXPECT[i]);
        }
        Err(err) => {
            core::mem::forget(err);
            panic!("valid event text rejected");
        }
    }
}
