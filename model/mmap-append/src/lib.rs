//! Environment MODEL of `mmap-append` 0.2.0 (see /verif/DESIGN.md 2.3).
//!
//! The append/get_end/deref/resize logic follows the real crate line by line (header =
//! 8-byte little-endian end marker; `append` runs the writer on `[end, end+max_len)`,
//! then a fence, then stores the new marker; "Out of space" when `end + max_len` exceeds
//! the mapping).  The mapping itself is a byte buffer:
//!   * under Kani: a static model file (`verif::FILE`) that the `std::fs` stubs of the
//!     harness prelude also act on; `resize` moves the contents to a *fresh* buffer, which is
//!     the documented contract of `mremap(MREMAP_MAYMOVE)` that the real crate requests;
//!   * natively (model validation only): a heap buffer written through to the real file.
//! Persistent effects are numbered (`verif::STEP`); effects whose number is >= `verif::CRASH_AT`
//! are not applied, which is what a process kill at that instant leaves in the file under
//! the assumption that writes reach the file in program order.
#![allow(clippy::all, dead_code, unused_variables)]

use std::fmt;
use std::io::{self, Result};
use std::ops::Deref;
use std::os::unix::io::{AsRawFd, RawFd};

pub const HEADER_SIZE: usize = std::mem::size_of::<usize>();

/// little-endian usize from/to 8 bytes with explicit byte operations (`copy_from_slice` is a
/// memcpy for the model checker, after which constants are no longer recognised as constants)
#[inline]
fn rd_usize(b: &[u8]) -> usize {
    (b[0] as usize) | (b[1] as usize) << 8 | (b[2] as usize) << 16 | (b[3] as usize) << 24
        | (b[4] as usize) << 32 | (b[5] as usize) << 40 | (b[6] as usize) << 48 | (b[7] as usize) << 56
}
#[inline]
fn wr_usize(b: &mut [u8], v: usize) {
    b[0] = v as u8;
    b[1] = (v >> 8) as u8;
    b[2] = (v >> 16) as u8;
    b[3] = (v >> 24) as u8;
    b[4] = (v >> 32) as u8;
    b[5] = (v >> 40) as u8;
    b[6] = (v >> 48) as u8;
    b[7] = (v >> 56) as u8;
}

pub mod verif {
    //! Verification-side state (not part of mmap-append's API).
    //!
    //! The file and its MAP_SHARED mapping are the *same* bytes (`DATA[CUR]`): a store into the
    //! mapping is a store into the page cache, which survives a process kill.  A kill is
    //! therefore modelled as "program-order effects numbered >= CRASH_AT never happen".
    #[cfg(kani)]
    pub const FCAP: usize = 1024;
    #[cfg(not(kani))]
    pub const FCAP: usize = 0;
    pub const NBUF: usize = 2;

    /// file contents = mapping contents; a resize that moves the mapping switches to the next buffer
    #[cfg(kani)]
    pub static mut DATA: [[u8; FCAP]; NBUF] = [[0; FCAP]; NBUF];
    pub static mut CUR: usize = 0;
    pub static mut EXISTS: bool = false;
    pub static mut FILE_LEN: usize = 0;
    pub static mut MAP_LEN: usize = 0;
    /// crash injection: persistent effects numbered from 0; those >= CRASH_AT are dropped
    pub static mut STEP: u32 = 0;
    pub static mut CRASH_AT: u32 = u32::MAX;
    /// when true `resize` keeps the address (models a non-moving growth strategy)
    pub static mut RESIZE_IN_PLACE: bool = false;

    pub fn effect_allowed() -> bool {
        unsafe {
            let ok = STEP < CRASH_AT;
            STEP += 1;
            ok
        }
    }
    #[cfg(kani)]
    pub fn data() -> &'static mut [u8; FCAP] {
        unsafe { &mut (*core::ptr::addr_of_mut!(DATA))[CUR] }
    }
    pub fn file_len() -> usize {
        unsafe { FILE_LEN }
    }
    pub fn file_exists() -> bool {
        unsafe { EXISTS }
    }
    /// harness set-up: an existing file of length `l` (contents are written through `data()`)
    pub fn set_file(exists: bool, l: usize) {
        unsafe {
            EXISTS = exists;
            FILE_LEN = l;
        }
    }
    /// model of OpenOptions::open(create): creates an empty file if there is none
    pub fn file_open_create() {
        unsafe {
            if !EXISTS && effect_allowed() {
                EXISTS = true;
                FILE_LEN = 0;
            }
        }
    }
    /// model of File::set_len.  Invariant kept by the whole model: bytes at or beyond the file
    /// length are zero, so growing (ftruncate zero-fills) needs no loop.
    #[cfg(kani)]
    pub fn file_set_len(n: usize) -> bool {
        if n > FCAP {
            return false;
        }
        unsafe {
            if effect_allowed() {
                // shrinking discards the bytes beyond the new length (they read as zeros if the
                // file is enlarged again); keeps the invariant "zero at and beyond the length"
                let mut i = n;
                while i < FILE_LEN {
                    data()[i] = 0;
                    i += 1;
                }
                FILE_LEN = n;
                EXISTS = true;
            }
        }
        true
    }
}

#[cfg(kani)]
pub struct MmapAppend {
    fd: RawFd,
}

#[cfg(not(kani))]
pub struct MmapAppend {
    fd: RawFd,
    append_lock: std::sync::Mutex<()>,
    // old buffers are kept alive (leaked into `old`) so that a stale reference taken before a
    // resize dangles only logically, as with a real moved mapping, without native UB in tests
    inner: std::sync::RwLock<(Vec<u8>, Vec<Vec<u8>>)>,
}

impl MmapAppend {
    /// # Safety
    /// as the real crate
    pub unsafe fn new<T: MmapAsRawDesc>(file: T, initialize: bool) -> Result<MmapAppend> {
        let fd = file.as_raw_desc().0;
        #[cfg(kani)]
        {
            let len = verif::file_len();
            if len < HEADER_SIZE {
                return Err(io::Error::from(io::ErrorKind::Other));
            }
            verif::MAP_LEN = len;
            if initialize && verif::effect_allowed() {
                wr_usize(&mut verif::data()[..], HEADER_SIZE);
            }
            Ok(MmapAppend { fd })
        }
        #[cfg(not(kani))]
        {
            use std::os::unix::fs::FileExt;
            let fileh = std::mem::ManuallyDrop::new(<std::fs::File as std::os::unix::io::FromRawFd>::from_raw_fd(fd));
            let len = fileh.metadata()?.len() as usize;
            if len < HEADER_SIZE {
                return Err(io::Error::new(io::ErrorKind::Other, "File not large enough."));
            }
            let mut buf = vec![0u8; len];
            fileh.read_exact_at(&mut buf, 0)?;
            if initialize {
                buf[0..HEADER_SIZE].copy_from_slice(&HEADER_SIZE.to_le_bytes());
                fileh.write_all_at(&buf[0..HEADER_SIZE], 0)?;
            }
            Ok(MmapAppend { fd, append_lock: std::sync::Mutex::new(()), inner: std::sync::RwLock::new((buf, Vec::new())) })
        }
    }

    pub fn append<F>(&self, max_len: usize, writer: F) -> Result<usize>
    where
        F: FnOnce(&mut [u8]) -> Result<usize>,
    {
        #[cfg(kani)]
        unsafe {
            let m = verif::data();
            let maplen = verif::MAP_LEN;
            let end = rd_usize(&m[..]);
            if end + max_len > maplen {
                // the same error value as the real crate (a boxed custom error: the bit-packed
                // "simple" representation is an integer disguised as a pointer, which CBMC's
                // pointer model cannot decode reliably in io::Error's drop glue)
                return Err(io::Error::new(io::ErrorKind::Other, "Out of space"));
            }
            let len = writer(&mut m[end..end + max_len])?;
            // a kill can land before, in the middle of, or after the copy of the payload:
            // the part that was not copied yet still holds what was there before (zeros)
            let half = len / 2;
            if !verif::effect_allowed() {
                let mut i = 0;
                while i < half {
                    m[end + i] = 0;
                    i += 1;
                }
            }
            if !verif::effect_allowed() {
                let mut i = half;
                while i < len {
                    m[end + i] = 0;
                    i += 1;
                }
            }
            // fence, then the marker
            if verif::effect_allowed() {
                wr_usize(&mut m[..], end + len);
            }
            Ok(end)
        }
        #[cfg(not(kani))]
        {
            use std::os::unix::fs::FileExt;
            let _guard = self.append_lock.lock().unwrap();
            let mut inner = self.inner.write().unwrap();
            let slice = &mut inner.0;
            let end = usize::from_le_bytes(slice[0..HEADER_SIZE].try_into().unwrap());
            if end + max_len > slice.len() {
                return Err(io::Error::new(io::ErrorKind::Other, "Out of space"));
            }
            let len = writer(&mut slice[end..end + max_len])?;
            std::sync::atomic::fence(std::sync::atomic::Ordering::SeqCst);
            let newend = end + len;
            slice[0..HEADER_SIZE].copy_from_slice(&newend.to_le_bytes());
            let fileh = std::mem::ManuallyDrop::new(unsafe { <std::fs::File as std::os::unix::io::FromRawFd>::from_raw_fd(self.fd) });
            fileh.write_all_at(&slice[end..end + len], end as u64)?;
            fileh.write_all_at(&slice[0..HEADER_SIZE], 0)?;
            Ok(end)
        }
    }

    pub fn resize(&self, new_len: usize) -> Result<()> {
        #[cfg(kani)]
        unsafe {
            if new_len > verif::FCAP {
                panic!("mmap-append model limit: mapping larger than the modelled file capacity");
            }
            // mremap(MREMAP_MAYMOVE): the same file pages may now be mapped at a different address
            if !verif::RESIZE_IN_PLACE {
                let old = verif::CUR;
                if old + 1 >= verif::NBUF {
                    panic!("mmap-append model limit: more resizes than modelled buffers");
                }
                let used = rd_usize(&verif::data()[..]);
                verif::CUR = old + 1;
                let mut i = 0;
                while i < used {
                    let b = (*core::ptr::addr_of!(verif::DATA))[old][i];
                    verif::data()[i] = b;
                    i += 1;
                }
            }
            verif::MAP_LEN = new_len;
            Ok(())
        }
        #[cfg(not(kani))]
        {
            let _guard = self.append_lock.lock().unwrap();
            let mut inner = self.inner.write().unwrap();
            let mut fresh = vec![0u8; new_len];
            let n = inner.0.len().min(new_len);
            fresh[..n].copy_from_slice(&inner.0[..n]);
            let old = std::mem::replace(&mut inner.0, fresh);
            inner.1.push(old);
            Ok(())
        }
    }

    pub fn get_end(&self) -> usize {
        #[cfg(kani)]
        {
            rd_usize(&verif::data()[..])
        }
        #[cfg(not(kani))]
        {
            let inner = self.inner.read().unwrap();
            usize::from_le_bytes(inner.0[0..HEADER_SIZE].try_into().unwrap())
        }
    }

    pub fn flush(&self) -> Result<()> {
        Ok(())
    }
    pub fn flush_async(&self) -> Result<()> {
        Ok(())
    }
    pub fn flush_range(&self, _offset: usize, _len: usize) -> Result<()> {
        Ok(())
    }
}

impl Deref for MmapAppend {
    type Target = [u8];
    #[inline]
    fn deref(&self) -> &[u8] {
        #[cfg(kani)]
        {
            let end = self.get_end();
            let m: &'static [u8; verif::FCAP] = verif::data();
            &m[..end]
        }
        #[cfg(not(kani))]
        {
            let inner = self.inner.read().unwrap();
            let end = usize::from_le_bytes(inner.0[0..HEADER_SIZE].try_into().unwrap());
            unsafe { std::slice::from_raw_parts(inner.0.as_ptr(), end) }
        }
    }
}

impl AsRef<[u8]> for MmapAppend {
    #[inline]
    fn as_ref(&self) -> &[u8] {
        self.deref()
    }
}

impl fmt::Debug for MmapAppend {
    fn fmt(&self, fmt: &mut fmt::Formatter) -> fmt::Result {
        fmt.write_str("MmapAppend(model)")
    }
}

pub struct MmapRawDescriptor(RawFd);

pub trait MmapAsRawDesc {
    fn as_raw_desc(&self) -> MmapRawDescriptor;
}

impl MmapAsRawDesc for RawFd {
    fn as_raw_desc(&self) -> MmapRawDescriptor {
        MmapRawDescriptor(*self)
    }
}

impl<'a, T> MmapAsRawDesc for &'a T
where
    T: AsRawFd,
{
    fn as_raw_desc(&self) -> MmapRawDescriptor {
        MmapRawDescriptor(self.as_raw_fd())
    }
}
