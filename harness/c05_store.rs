//@@ property: C05
//@@ crate: db
//@@ mount: pocket-db/src/lib.rs
//@@ also: db_lmdb_helper.rs@pocket-db/src/lmdb/mod.rs, es_helper.rs@pocket-db/src/event_store.rs
use crate::*;
include!("common_db.rs");
include!("img.rs");
include!("store_common.rs");

//@ harness: c05_scrape_gate_empty_store
//@ tier: quick
//@ timeout: 1800
//@ mem: 16
//@ covers: any
//@ unwindset: put_bytes=80; heed::bytes_=260; heed::Table=6; memcmp.0=70; enc_tags=6
//@ cbmc: --max-field-sensitivity-array-size 1100
//@ encodes: Store::find_events (scrape branch and gate), Time arithmetic, Lmdb::ci_iter, Filter accessors
//@ bounds: fresh (empty) store; a filter without ids, authors, kinds or tags whose since, until and limit are ARBITRARY (inverted and future windows included), an arbitrary clock, arbitrary scraping allowances: the query never panics; it is refused as scraping iff scraping is not allowed, limit exceeds the allowed limit and the window min(until, now) - since (0 when inverted) is not below the allowed seconds; otherwise it returns no events and no redaction
//@ outside: non-empty stores and the index-served branches (key order and scan bounds are decided in c05_key_* / c05_iter_bounds_*)
//@ assumes: Time::now stubbed to an arbitrary instant
store_harness!(c05_scrape_gate_empty_store, {
    let store = verif_store();
    let since: u64 = kani::any();
    let until: u64 = kani::any();
    let limit: u32 = kani::any();
    let now: u64 = kani::any();
    unsafe {
        VERIF_NOW = now;
    }
    // filter image: header only, empty tags
    let mut fb = [0u8; 36];
    put32(&mut fb, 0, 36);
    put_bytes(&mut fb, 12, &limit.to_ne_bytes());
    put_bytes(&mut fb, 16, &since.to_ne_bytes());
    put_bytes(&mut fb, 24, &until.to_ne_bytes());
    put16(&mut fb, 32, 4);
    let fs: &[u8] = &fb[..];
    let filter: &Filter = unsafe { &*(fs as *const [u8] as *const Filter) };
    let allow: bool = kani::any();
    let allow_limit: u32 = kani::any();
    let allow_secs: u64 = kani::any();
    let r = store.find_events(filter, allow, allow_limit, allow_secs, |_| ScreenResult::Match);
    let maxtime = if until < now { until } else { now };
    let window = if maxtime >= since { maxtime - since } else { 0 };
    let allowed = allow || limit <= allow_limit || window < allow_secs;
    kani::cover!(since > maxtime);
    match r {
        Ok((events, redacted)) => {
            assert!(allowed);
            assert!(events.is_empty() && !redacted);
            core::mem::forget(events);
        }
        Err(e) => {
            let scraper = matches!(e.inner, InnerError::Scraper);
            core::mem::forget(e);
            assert!(scraper && !allowed);
        }
    }
    core::mem::forget(store);
});

/// filter image with `n_ids` ids, `n_auth` authors, `n_kinds` kinds (fixed values) and one optional
/// tag constraint e:[ab]; since/until/limit arbitrary
fn plan_filter(fb: &mut [u8; 160], n_ids: usize, n_auth: usize, n_kinds: usize, with_tag: bool, limit: u32, since: u64, until: u64) -> usize {
    put16(fb, 4, n_ids);
    put16(fb, 6, n_auth);
    put16(fb, 8, n_kinds);
    put_bytes(fb, 12, &limit.to_ne_bytes());
    put_bytes(fb, 16, &since.to_ne_bytes());
    put_bytes(fb, 24, &until.to_ne_bytes());
    let mut q = 32;
    if n_ids == 1 {
        put_bytes(fb, q, &ID_A);
        q += 32;
    }
    if n_auth == 1 {
        put_bytes(fb, q, &PK_1);
        q += 32;
    }
    if n_kinds == 1 {
        put_bytes(fb, q, &1u16.to_ne_bytes());
        q += 2;
    }
    let tl = if with_tag { enc_tags(&[&[1, 2]], b"eab", &mut fb[q..]) } else { enc_tags(&[], b"", &mut fb[q..]) };
    q += tl;
    put32(fb, 0, q);
    q
}

macro_rules! plan_empty {
    ($name:ident, $ids:expr, $auth:expr, $kinds:expr, $tag:expr) => {
        store_harness!($name, {
            let store = verif_store();
            let since: u64 = kani::any();
            let until: u64 = kani::any();
            let limit: u32 = kani::any();
            unsafe {
                VERIF_NOW = kani::any();
            }
            let mut fb = [0u8; 160];
            let n = plan_filter(&mut fb, $ids, $auth, $kinds, $tag, limit, since, until);
            let fs: &[u8] = &fb[..n];
            let filter: &Filter = unsafe { &*(fs as *const [u8] as *const Filter) };
            // no scraping allowance at all: a filter that names ids, authors or tags must never need one
            let r = store.find_events(filter, false, 0, 0, |_| ScreenResult::Match);
            kani::cover!(since > until);
            match r {
                Ok((events, redacted)) => {
                    assert!(events.is_empty() && !redacted);
                    core::mem::forget(events);
                }
                Err(e) => {
                    core::mem::forget(e);
                    panic!("a filter naming ids, authors or tags was refused");
                }
            }
            core::mem::forget(store);
        });
    };
}

//@ harness: c05_plan_author_kind_empty_store c05_plan_author_empty_store c05_plan_tag_empty_store
//@ tier: quick
//@ timeout: 700
//@ mem: 16
//@ covers: any
//@ unwindset: put_bytes=80; heed::bytes_=260; heed::Table=6; memcmp.0=70; enc_tags=6; repeat::Repeat=190; Repeat.*try_fold=190; plan_filter=6
//@ cbmc: --max-field-sensitivity-array-size 1100
//@ encodes: Store::find_events (plan selection: author+kind / author / tag), Lmdb::akc_iter, Lmdb::ac_iter, Lmdb::tc_iter, the range-bound key builders, Filter accessors
//@ bounds: fresh (empty) store; a filter naming one author and one kind / one author / one tag value (the instance) with ARBITRARY since, until (inverted windows included) and limit (0 included), an arbitrary clock and NO scraping allowance: the query is never refused as scraping, never panics in the window and limit arithmetic of its plan, and returns the empty answer without the redacted flag
//@ outside: non-empty stores (find_events dereferences stored events, DESIGN.md 8.2); combined plans (author+tag, kind+tag); several list entries
//@ assumes: Time::now stubbed to an arbitrary instant
plan_empty!(c05_plan_author_kind_empty_store, 0, 1, 1, false);
plan_empty!(c05_plan_author_empty_store, 0, 1, 0, false);
plan_empty!(c05_plan_tag_empty_store, 0, 0, 0, true);

//@ harness: c05_plan_ids_empty_store
//@ tier: thorough
//@ timeout: 3000
//@ mem: 20
//@ covers: any
//@ unwindset: put_bytes=80; heed::bytes_=260; heed::Table=6; memcmp.0=70; enc_tags=6; repeat::Repeat=190; Repeat.*try_fold=190; plan_filter=6
//@ cbmc: --max-field-sensitivity-array-size 1100
//@ encodes: Store::find_events (ids plan), Store::get_event_by_id
//@ bounds: the same for a filter naming one id (did not finish in 700 s: the ids plan goes through get_event_by_id, DESIGN.md 8.2)
plan_empty!(c05_plan_ids_empty_store, 1, 0, 0, false);
