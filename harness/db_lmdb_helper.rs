// Helper mounted as a child module of pocket-db/src/lmdb/mod.rs (no harnesses here).
// Builds the `Lmdb` value field by field with the same `create` calls as `Lmdb::new`.
// Reason: `Lmdb::new` returns the struct inside a `Result`; moving a pointer-carrying
// struct out of an enum is a byte-level copy for CBMC, after which the table handles are
// no longer constants and every table access forks over all twelve tables (measured:
// 6356 unsimplified VCCs for one lookup).  `Lmdb::new` itself is exercised separately.
use super::*;

pub(crate) fn verif_lmdb() -> Lmdb {
    let mut builder = EnvOpenOptions::new();
    unsafe {
        let _ = builder.flags(EnvFlags::NO_TLS | EnvFlags::NO_SYNC | EnvFlags::NO_META_SYNC);
    }
    let _ = builder.max_dbs(10).map_size(1048576 * 1024 * 24);
    let env = match unsafe { builder.open("/s/lmdb") } {
        Ok(e) => e,
        Err(e) => { core::mem::forget(e); panic!("model env") }
    };
    let mut txn = match env.write_txn() {
        Ok(t) => t,
        Err(e) => { core::mem::forget(e); panic!("model txn") }
    };
    macro_rules! mk {
        ($k:ty, $v:ty) => {
            match env.database_options().types::<$k, $v>().create(&mut txn) {
                Ok(d) => d,
                Err(e) => { core::mem::forget(e); panic!("model create") }
            }
        };
        ($k:ty, $v:ty, $name:expr) => {
            match env.database_options().types::<$k, $v>().name($name).create(&mut txn) {
                Ok(d) => d,
                Err(e) => { core::mem::forget(e); panic!("model create") }
            }
        };
    }
    let general = mk!(Bytes, Bytes);
    let i_index = mk!(Bytes, U64<NativeEndian>, "ids");
    let ci_index = mk!(Bytes, U64<NativeEndian>, "ci");
    let tc_index = mk!(Bytes, U64<NativeEndian>, "tci");
    let ac_index = mk!(Bytes, U64<NativeEndian>, "aci");
    let akc_index = mk!(Bytes, U64<NativeEndian>, "akci");
    let atc_index = mk!(Bytes, U64<NativeEndian>, "atci");
    let ktc_index = mk!(Bytes, U64<NativeEndian>, "ktci");
    let deleted_ids = mk!(Bytes, Unit, "deleted-ids");
    let deleted_naddrs = mk!(Bytes, U64<NativeEndian>, "deleted-naddrs");
    match txn.commit() {
        Ok(()) => {}
        Err(e) => { core::mem::forget(e); panic!("model commit") }
    }
    Lmdb {
        env,
        general,
        i_index,
        ci_index,
        tc_index,
        ac_index,
        akc_index,
        atc_index,
        ktc_index,
        deleted_ids,
        deleted_naddrs,
        extra_tables: HashMap::new(),
    }
}

pub(crate) fn env_of(l: &Lmdb) -> &Env {
    &l.env
}
