//@@ property: C12
//@@ crate: db
//@@ mount: pocket-db/src/lib.rs
//@@ also: db_lmdb_helper.rs@pocket-db/src/lmdb/mod.rs, es_helper.rs@pocket-db/src/event_store.rs
use crate::*;
include!("common_db.rs");
include!("img.rs");
include!("store_common.rs");

//@ harness: c12_duplicate_changes_nothing
//@ tier: quick
//@ timeout: 3000
//@ mem: 20
//@ covers: none
//@ unwindset: put_bytes=80; heed::bytes_=260; heed::Table=6; memcmp.0=70; repeat::Repeat=190; Repeat.*try_fold=190; mmap_append=200; read_hex=34; enc_tags=6
//@ cbmc: --max-field-sensitivity-array-size 800
//@ encodes: Store::store_event (duplicate path), heed model transaction rollback
//@ bounds: fresh store; an event (kind 1, one indexable tag, arbitrary created_at) is in the store (seeded through EventStore::store_event + Lmdb::index); storing it again fails as a duplicate, and every committed table of the environment model (all ten indexes and marker tables, compared entry by entry) and the statistics counts are exactly what they were before the failing call
//@ outside: the other failure causes (thorough: c12_foreign_delete_changes_nothing), larger pre-states
store_harness!(c12_duplicate_changes_nothing, {
    let store = verif_store();
    let t: u64 = kani::any();
    let mut b = [0u8; 170];
    let n = enc_event_img(1, t, &ID_A, &PK_1, &SIG_0, &[&[1, 2]], b"eab", b"", &mut b);
    let ev = as_event(&b[..n]);
    let _ = seed_stored(&store, ev);
    let env = crate::lmdb::verif_db_lmdb_helper::env_of(&store.indexes);
    let before: heed::Tables = *heed::verif::committed(env);
    let commits = heed::verif::commits(env);
    let o = outcome(store.store_event(ev));
    assert!(o == Outcome::Duplicate);
    assert!(heed::verif::commits(env) == commits);
    assert!(heed::verif::committed(env).same_as(&before));
    assert!(has(&store, &ID_A));
    core::mem::forget(store);
});
