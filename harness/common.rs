// Shared prelude, `include!`d by every harness module.
// Kani does not support the `caller_location` intrinsic that every
// `InnerError::X.into()` reaches; the location is never observed by a property.
static VERIF_DUMMY_LOC: [u64; 4] = [0; 4];
pub fn stub_caller<'a>() -> &'static core::panic::Location<'a> {
    unsafe { &*(VERIF_DUMMY_LOC.as_ptr() as *const core::panic::Location<'a>) }
}
