use pocket_db::Store;
use pocket_types::{Addr, Id, Kind, OwnedEvent, OwnedTags, Pubkey, Sig, Time};

fn ev(id: u8, t: u64, d: &str) -> OwnedEvent {
    let tags = OwnedTags::new(&[vec!["d", d]]).unwrap();
    OwnedEvent::new(Id::from_bytes([id; 32]), Kind::from_u16(30023), Pubkey::from_bytes([7; 32]), Sig::from_bytes([0; 64]), &tags, Time::from_u64(t), b"").unwrap()
}

#[test]
fn trailing_nul_addresses_collide() {
    let dir = tempfile::tempdir().unwrap();
    let store = Store::new(dir.path(), vec![]).unwrap();
    let e1 = ev(1, 1000, "x");
    let e2 = ev(2, 2000, "x\0");
    store.store_event(&e1).unwrap();
    let r2 = store.store_event(&e2);
    println!("second store: {:?}", r2.is_ok());
    let has1 = store.has_event(e1.id()).unwrap();
    let has2 = store.has_event(e2.id()).unwrap();
    println!("has e1 (d=x): {}  has e2 (d=x\\0): {}", has1, has2);
    let a1 = Addr { kind: Kind::from_u16(30023), author: Pubkey::from_bytes([7; 32]), d: b"x".to_vec() };
    let f1 = store.find_parameterized_replaceable_event(&a1).unwrap().map(|e| e.id());
    println!("holder of (30023, A, \"x\"): {:?}", f1.map(|i| i.as_slice()[0]));
    assert!(has1 && has2, "two different addresses affected one another");
}
