//@@ property: C09
//@@ crate: types
//@@ mount: pocket-types/src/lib.rs
use crate::Kind;
include!("common.rs");

//@ harness: c09_kind_classes
//@ tier: quick
//@ timeout: 300
//@ encodes: Kind::is_replaceable, Kind::is_ephemeral, Kind::is_parameterized_replaceable
//@ bounds: all 65,536 kind values (whole input space): classification equals the NIP-01 ranges, classes are mutually exclusive
#[kani::proof]
#[kani::stub(core::panic::Location::caller, stub_caller)]
fn c09_kind_classes() {
    let k: u16 = kani::any();
    let kind = Kind::from_u16(k);
    let rep = k == 0 || k == 3 || (k >= 10000 && k <= 19999);
    let eph = k >= 20000 && k <= 29999;
    let par = k >= 30000 && k <= 39999;
    kani::cover!(rep);
    kani::cover!(par);
    assert!(kind.is_replaceable() == rep);
    assert!(kind.is_ephemeral() == eph);
    assert!(kind.is_parameterized_replaceable() == par);
    let n = kind.is_replaceable() as u8 + kind.is_ephemeral() as u8 + kind.is_parameterized_replaceable() as u8;
    assert!(n <= 1);
    assert!(kind.as_u16() == k);
}

//@ harness: c09_kind_from_string
//@ tier: quick
//@ timeout: 900
//@ encodes: Kind::try_from_string_bytes
//@ bounds: every ASCII-digit string of length 1..=6 (symbolic digits, symbolic length): parsed value equals the decimal value when <= 65535, rejected above it
#[kani::proof]
#[kani::unwind(8)]
#[kani::stub(core::panic::Location::caller, stub_caller)]
fn c09_kind_from_string() {
    let d: [u8; 6] = kani::any();
    let n: usize = kani::any();
    kani::assume(n >= 1 && n <= 6);
    let mut v: u32 = 0;
    let mut i = 0;
    while i < n {
        kani::assume(d[i] >= b'0' && d[i] <= b'9');
        v = v * 10 + (d[i] - b'0') as u32;
        i += 1;
    }
    let s = unsafe { core::str::from_utf8_unchecked(&d[..n]) };
    let r = Kind::try_from_string_bytes(s);
    match r {
        Ok(k) => {
            kani::cover!(v == 65535);
            assert!(v <= 65535 && k.as_u16() as u32 == v);
        }
        Err(e) => {
            assert!(v > 65535);
            core::mem::forget(e);
        }
    }
}
