//@@ property: ZZ
//@@ crate: types
//@@ mount: pocket-types/src/lib.rs
use crate::Event;
include!("common.rs");
include!("texts.rs");
include!("jsonsym.rs");

fn finish(r: Result<(usize, &Event), crate::Error>) {
    match r {
        Ok((consumed, ev)) => {
            assert!(consumed > 300);
            assert!(ev.len() == 177);
        }
        Err(err) => core::mem::forget(err),
    }
}

//@ harness: zz_v1 zz_v2 zz_v3 zz_v4
//@ tier: quick
//@ timeout: 900
//@ mem: 14
//@ covers: none
//@ unwindset: read_sig=66; read_id=34; read_pubkey=34; read_hex=66; memcmp.0=34; zz_v=600; patch_site=24
#[kani::proof]
#[kani::unwind(8)]
#[kani::stub(core::panic::Location::caller, stub_caller)]
fn zz_v1() {
    let mut out: [u8; 200] = kani::any();
    finish(Event::from_json(M5, &mut out));
}
#[kani::proof]
#[kani::unwind(8)]
#[kani::stub(core::panic::Location::caller, stub_caller)]
fn zz_v2() {
    const N: usize = M5.len();
    let mut t = [0u8; N + 2];
    copy_text!(t, M5);
    let mut out: [u8; 200] = kani::any();
    finish(Event::from_json(&t, &mut out));
}
#[kani::proof]
#[kani::unwind(8)]
#[kani::stub(core::panic::Location::caller, stub_caller)]
fn zz_v3() {
    const N: usize = M5.len();
    let mut t = [0u8; N + 2];
    copy_text!(t, M5);
    let _e = patch_site(&mut t, Site::Kind, M5_ID, M5_PK, M5_SIG, M5_KIND, 5, M5_AT, 10, M5_CONTENT, M5_TAGV, 30023, 1681778790);
    let mut out: [u8; 200] = kani::any();
    finish(Event::from_json(&t, &mut out));
}
#[kani::proof]
#[kani::unwind(8)]
#[kani::stub(core::panic::Location::caller, stub_caller)]
fn zz_v4() {
    // zeroed output buffer instead of an arbitrary one
    let mut out = [0u8; 200];
    finish(Event::from_json(M5, &mut out));
}

//@ harness: zz_v5 zz_v6
//@ tier: quick
//@ timeout: 900
//@ mem: 14
//@ covers: none
//@ unwindset: read_sig=66; read_id=34; read_pubkey=34; read_hex=66; memcmp.0=34; patch_site=24; memchr=12
#[kani::proof]
#[kani::unwind(8)]
#[kani::stub(core::panic::Location::caller, stub_caller)]
fn zz_v5() {
    let mut t = *M5; // by-value copy of the constant array
    let mut out: [u8; 200] = kani::any();
    finish(Event::from_json(&t, &mut out));
}
static mut ZZ_TEXT: [u8; M5.len()] = *M5;
#[kani::proof]
#[kani::unwind(8)]
#[kani::stub(core::panic::Location::caller, stub_caller)]
fn zz_v6() {
    let t: &mut [u8; M5.len()] = unsafe { &mut *core::ptr::addr_of_mut!(ZZ_TEXT) };
    let _e = patch_site(&mut t[..], Site::Kind, M5_ID, M5_PK, M5_SIG, M5_KIND, 5, M5_AT, 10, M5_CONTENT, M5_TAGV, 30023, 1681778790);
    let mut out: [u8; 200] = kani::any();
    finish(Event::from_json(&t[..], &mut out));
}

//@ harness: zz_v7 zz_v8 zz_v9
//@ cbmc: --max-field-sensitivity-array-size 700
//@ tier: quick
//@ timeout: 900
//@ mem: 14
//@ covers: none
//@ unwindset: read_sig=66; read_id=34; read_pubkey=34; read_hex=66; memcmp.0=34; patch_site=24; memchr=12; read_u64=12; read_kind=8
#[kani::proof]
#[kani::unwind(8)]
#[kani::stub(core::panic::Location::caller, stub_caller)]
fn zz_v7() {
    let mut t = *M5;
    let _e = patch_site(&mut t[..], Site::Kind, M5_ID, M5_PK, M5_SIG, M5_KIND, 5, M5_AT, 10, M5_CONTENT, M5_TAGV, 30023, 1681778790);
    let mut out: [u8; 200] = kani::any();
    finish(Event::from_json(&t[..], &mut out));
}
#[kani::proof]
#[kani::unwind(8)]
#[kani::stub(core::panic::Location::caller, stub_caller)]
fn zz_v8() {
    let mut t = *M1;
    let _e = patch_site(&mut t[..], Site::Sig, M1_ID, M1_PK, M1_SIG, M1_KIND, 5, M1_AT, 10, M1_CONTENT, M1_TAGV, 30023, 1681778790);
    let mut out: [u8; 200] = kani::any();
    finish(Event::from_json(&t[..], &mut out));
}
#[kani::proof]
#[kani::unwind(8)]
#[kani::stub(core::panic::Location::caller, stub_caller)]
fn zz_v9() {
    // one symbolic digit only
    let mut t = *M5;
    t[M5_KIND + 4] = any_digit();
    let mut out: [u8; 200] = kani::any();
    finish(Event::from_json(&t[..], &mut out));
}
