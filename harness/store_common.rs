// Shared by the Store-level scenario harnesses (`include!`d after common_db.rs, img.rs, texts.rs).
// The Store is built field by field (es_helper.rs, db_lmdb_helper.rs) and events are viewed
// through a pointer cast, so that nothing the scenario depends on travels through a
// niche-encoded Result (DESIGN.md 8.2).

fn verif_store() -> Store {
    let events = crate::event_store::verif_es_helper::fresh_event_store();
    let indexes = crate::lmdb::verif_db_lmdb_helper::verif_lmdb();
    Store { events, indexes, dir: std::path::PathBuf::new(), extra_table_names: Vec::new() }
}

fn as_event(bytes: &[u8]) -> &Event {
    unsafe { &*(bytes as *const [u8] as *const Event) }
}

/// classify a store_event error without dropping it
#[derive(Clone, Copy, PartialEq, Eq)]
enum Outcome {
    Stored,
    Duplicate,
    Deleted,
    Replaced,
    InvalidDelete,
    Other,
}

fn outcome(r: Result<u64, Error>) -> Outcome {
    match r {
        Ok(_) => Outcome::Stored,
        Err(e) => {
            let o = match e.inner {
                InnerError::Duplicate => Outcome::Duplicate,
                InnerError::Deleted => Outcome::Deleted,
                InnerError::Replaced => Outcome::Replaced,
                InnerError::InvalidDelete => Outcome::InvalidDelete,
                _ => Outcome::Other,
            };
            core::mem::forget(e);
            o
        }
    }
}

/// The state an earlier successful store of `ev` leaves behind, produced with the two halves of
/// Store::store_event themselves (EventStore::store_event, then Lmdb::index in a committed
/// transaction) instead of a first full Store::store_event call: two full calls in one harness
/// exceed the memory cap (measured: 20 GB after 30 min), one full call plus this seeding fits.
fn seed_stored(store: &Store, ev: &Event) -> u64 {
    let off = ok!(store.events.store_event(ev)) as u64;
    let mut txn = ok!(store.indexes.write_txn());
    ok!(store.indexes.index(&mut txn, ev, off));
    ok!(txn.commit());
    off
}

fn has(store: &Store, id: &[u8; 32]) -> bool {
    ok!(store.has_event(Id::from_bytes(*id)))
}

macro_rules! store_harness {
    ($name:ident, $body:expr) => {
        #[kani::proof]
        #[kani::unwind(14)]
        #[kani::stub(core::panic::Location::caller, stub_caller)]
        #[kani::stub(std::hash::RandomState::new, stub_random_state)]
        #[kani::stub(<std::io::Error as std::fmt::Display>::fmt, stub_io_error_fmt)]
        #[kani::stub(<std::io::Error as std::string::ToString>::to_string, stub_io_to_string)]
        #[kani::stub(std::fs::File::set_len, stub_set_len)]
        #[kani::stub(std::fs::OpenOptions::open, stub_open)]
        #[kani::stub(std::fs::File::metadata, stub_metadata)]
        #[kani::stub(std::fs::Metadata::len, stub_metadata_len)]
        #[kani::stub(pocket_types::Time::now, stub_now)]
        fn $name() {
            $body
        }
    };
}

const ID_A: [u8; 32] = [0xA1; 32];
const ID_B: [u8; 32] = [0xB2; 32];
const ID_C: [u8; 32] = [0xC3; 32];
const PK_1: [u8; 32] = [0x11; 32];
const PK_2: [u8; 32] = [0x22; 32];
const SIG_0: [u8; 64] = [0; 64];
