// Shared prelude for pocket-db harness modules (`include!`d).  Environment stubs
// (DESIGN.md 2.3 / 3.2); each is part of the claim and is listed in evidence.
static VERIF_DUMMY_LOC: [u64; 4] = [0; 4];
pub fn stub_caller<'a>() -> &'static core::panic::Location<'a> {
    unsafe { &*(VERIF_DUMMY_LOC.as_ptr() as *const core::panic::Location<'a>) }
}
/// std::hash::RandomState::new -> fixed keys (Lmdb keeps its extra tables in a HashMap;
/// hash order is not observable through any property)
pub fn stub_random_state() -> std::hash::RandomState {
    unsafe { core::mem::transmute::<[u64; 2], std::hash::RandomState>([1, 2]) }
}
/// <io::Error as Display>::fmt -> the only message the mmap-append model produces
pub fn stub_io_error_fmt(_e: &std::io::Error, f: &mut core::fmt::Formatter<'_>) -> core::fmt::Result {
    f.write_str("Out of space")
}
/// File::set_len on the model file
pub fn stub_set_len(_f: &std::fs::File, size: u64) -> std::io::Result<()> {
    if mmap_append::verif::file_set_len(size as usize) {
        Ok(())
    } else {
        panic!("model limit: file larger than the modelled capacity")
    }
}
/// OpenOptions::open -> a handle on the model file (created empty if absent)
pub fn stub_open<P: AsRef<std::path::Path>>(_o: &std::fs::OpenOptions, _p: P) -> std::io::Result<std::fs::File> {
    let f = mmap_append::verif::file();
    if !f.exists {
        if mmap_append::verif::effect_allowed() {
            f.exists = true;
            f.len = 0;
        }
    }
    Ok(unsafe { <std::fs::File as std::os::unix::io::FromRawFd>::from_raw_fd(1000) })
}
/// File::metadata / Metadata::len -> length of the model file
pub fn stub_metadata(_f: &std::fs::File) -> std::io::Result<std::fs::Metadata> {
    Ok(unsafe { core::mem::zeroed() })
}
pub fn stub_metadata_len(_m: &std::fs::Metadata) -> u64 {
    mmap_append::verif::file().len as u64
}
pub fn stub_create_dir<P: AsRef<std::path::Path>>(_p: P) -> std::io::Result<()> {
    Ok(())
}
pub fn stub_now() -> pocket_types::Time {
    pocket_types::Time::from_u64(kani::any())
}

/// `unwrap()` without the Debug-formatting path and without drop glue for the error
/// (both drag `io::Error`'s `dyn Error` drop and the stderr writer into symbolic execution)
macro_rules! ok {
    ($e:expr) => {
        match $e {
            Ok(v) => v,
            Err(err) => {
                core::mem::forget(err);
                panic!("unexpected Err")
            }
        }
    };
}
macro_rules! some {
    ($e:expr) => {
        match $e {
            Some(v) => v,
            None => panic!("unexpected None"),
        }
    };
}
