// Shared byte-image encoders, written from the layout comments in
// pocket-types/src/{tags,event,filter}.rs.  `include!`d by harness modules.
// element-wise stores (not copy_from_slice): constants stay constants under symbolic execution
fn put_bytes(out: &mut [u8], at: usize, src: &[u8]) {
    let mut i = 0;
    while i < src.len() {
        out[at + i] = src[i];
        i += 1;
    }
}
fn put16(out: &mut [u8], at: usize, v: usize) {
    let b = (v as u16).to_ne_bytes();
    out[at] = b[0];
    out[at + 1] = b[1];
}
fn put32(out: &mut [u8], at: usize, v: usize) {
    let b = (v as u32).to_ne_bytes();
    out[at] = b[0];
    out[at + 1] = b[1];
    out[at + 2] = b[2];
    out[at + 3] = b[3];
}

/// shape[t][s] = length of string s of tag t; string bytes are taken from `pool` in order.
fn enc_tags(shape: &[&[usize]], pool: &[u8], out: &mut [u8]) -> usize {
    let n = shape.len();
    put16(out, 2, n);
    let mut p = 4 + 2 * n;
    let mut q = 0;
    let mut t = 0;
    while t < n {
        put16(out, 4 + 2 * t, p);
        put16(out, p, shape[t].len());
        p += 2;
        let mut s = 0;
        while s < shape[t].len() {
            let l = shape[t][s];
            put16(out, p, l);
            p += 2;
            put_bytes(out, p, &pool[q..q + l]);
            p += l;
            q += l;
            s += 1;
        }
        t += 1;
    }
    put16(out, 0, p);
    p
}

fn str_at<'a>(shape: &[&[usize]], pool: &'a [u8], t: usize, s: usize) -> &'a [u8] {
    let mut q = 0;
    let mut i = 0;
    while i < t {
        let mut j = 0;
        while j < shape[i].len() {
            q += shape[i][j];
            j += 1;
        }
        i += 1;
    }
    let mut j = 0;
    while j < s {
        q += shape[t][j];
        j += 1;
    }
    &pool[q..q + shape[t][s]]
}


/// Event image: header fields, tags from (shape, pool), content bytes. Returns the length.
fn enc_event_img(kind: u16, created_at: u64, id: &[u8; 32], pk: &[u8; 32], sig: &[u8; 64],
                 es: &[&[usize]], ep: &[u8], content: &[u8], out: &mut [u8]) -> usize {
    put_bytes(out, 4, &kind.to_ne_bytes());
    out[6] = 0;
    out[7] = 0;
    put_bytes(out, 8, &created_at.to_ne_bytes());
    put_bytes(out, 16, id);
    put_bytes(out, 48, pk);
    put_bytes(out, 80, sig);
    let tl = enc_tags(es, ep, &mut out[144..]);
    put32(out, 144 + tl, content.len());
    put_bytes(out, 144 + tl + 4, content);
    let len = 144 + tl + 4 + content.len();
    put32(out, 0, len);
    len
}
