#!/bin/sh
# kill every running check driver and its solver processes (development helper)
for p in $(pgrep -f 'python3 .*/?check [CG][0-9]'); do
  [ "$p" = "$$" ] || [ "$p" = "$PPID" ] || kill "$p" 2>/dev/null
done
sleep 1
pkill -x cbmc; pkill -x cargo-kani; pkill -x kani-driver; pkill -x goto-instrument
exit 0
