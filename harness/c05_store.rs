//@@ property: C05
//@@ crate: db
//@@ mount: pocket-db/src/lib.rs
//@@ also: db_lmdb_helper.rs@pocket-db/src/lmdb/mod.rs, es_helper.rs@pocket-db/src/event_store.rs
use crate::*;
include!("common_db.rs");
include!("img.rs");
include!("store_common.rs");

//@ harness: c05_scrape_gate_empty_store
//@ tier: quick
//@ timeout: 1800
//@ mem: 16
//@ covers: any
//@ unwindset: put_bytes=80; heed::bytes_=260; heed::Table=6; memcmp.0=70; enc_tags=6
//@ cbmc: --max-field-sensitivity-array-size 1100
//@ encodes: Store::find_events (scrape branch and gate), Time arithmetic, Lmdb::ci_iter, Filter accessors
//@ bounds: fresh (empty) store; a filter without ids, authors, kinds or tags whose since, until and limit are ARBITRARY (inverted and future windows included), an arbitrary clock, arbitrary scraping allowances: the query never panics; it is refused as scraping iff scraping is not allowed, limit exceeds the allowed limit and the window min(until, now) - since (0 when inverted) is not below the allowed seconds; otherwise it returns no events and no redaction
//@ outside: non-empty stores and the index-served branches (key order and scan bounds are decided in c05_key_* / c05_iter_bounds_*)
//@ assumes: Time::now stubbed to an arbitrary instant
store_harness!(c05_scrape_gate_empty_store, {
    let store = verif_store();
    let since: u64 = kani::any();
    let until: u64 = kani::any();
    let limit: u32 = kani::any();
    let now: u64 = kani::any();
    unsafe {
        VERIF_NOW = now;
    }
    // filter image: header only, empty tags
    let mut fb = [0u8; 36];
    put32(&mut fb, 0, 36);
    put_bytes(&mut fb, 12, &limit.to_ne_bytes());
    put_bytes(&mut fb, 16, &since.to_ne_bytes());
    put_bytes(&mut fb, 24, &until.to_ne_bytes());
    put16(&mut fb, 32, 4);
    let fs: &[u8] = &fb[..];
    let filter: &Filter = unsafe { &*(fs as *const [u8] as *const Filter) };
    let allow: bool = kani::any();
    let allow_limit: u32 = kani::any();
    let allow_secs: u64 = kani::any();
    let r = store.find_events(filter, allow, allow_limit, allow_secs, |_| ScreenResult::Match);
    let maxtime = if until < now { until } else { now };
    let window = if maxtime >= since { maxtime - since } else { 0 };
    let allowed = allow || limit <= allow_limit || window < allow_secs;
    kani::cover!(since > maxtime);
    match r {
        Ok((events, redacted)) => {
            assert!(allowed);
            assert!(events.is_empty() && !redacted);
            core::mem::forget(events);
        }
        Err(e) => {
            let scraper = matches!(e.inner, InnerError::Scraper);
            core::mem::forget(e);
            assert!(scraper && !allowed);
        }
    }
    core::mem::forget(store);
});
