#!/usr/bin/env python3
"""Generate /verif/MANIFEST.json from the table below (kept next to the driver so
that claims, level notes and the not_applicable list are edited in one place)."""
import json, os, sys

VERIF = os.path.dirname(os.path.dirname(os.path.abspath(__file__)))

TECH = "bounded model checking of the compiled Rust (Kani 0.68 -> CBMC 6.11 -> CaDiCaL SAT), symbolic inputs via kani::any()"
BASE_NOTE = ("Trusted: Kani's MIR->GOTO translation, CBMC symex/bit-blasting, CaDiCaL; dev-profile semantics "
             "(overflow checks on), x86-64 little-endian; stub of core::panic::Location::caller. "
             "Bounded: each harness states its symbolic window and unwind bound in evidence samples[].bounds / outside_bounds; "
             "a harness that hits its time or memory cap is reported INCONCLUSIVE and not counted as discharged. ")

# property -> (claimed?, level text, extra note, design ref)
CLAIMS = {
    "C20": (
        "Solver-decided over the real Hll8 code: merge commutative/associative/idempotent and equal to register-wise max on all "
        "256-register states; add_element equals max with a bit-level reference rho for every element, offset and prior state, "
        "idempotent, order-independent; union law at offsets 0/16/23; hex export digits and the read/write macro round trip on every "
        "32-byte value; estimate_count panic-free, finite and non-zero for every single-register extreme 0..=255 and exactly 0 on the "
        "empty sketch. Not claimed: statistical accuracy, estimate over arbitrary multi-register states, Hll8-sized hex import.",
        "Additional stub: f64::powi modelled exactly for base 2.0 (power of two), arbitrary otherwise.",
        "DESIGN.md section 4 C20"),
}

NOT_APPLICABLE = {
    "C14": "Concurrency: Kani/CBMC do not model Rust threads; the isolation relied on is LMDB's writer lock/MVCC (C code behind FFI) "
           "and locks inside mmap-append. Under any sequential environment model the property is trivially true of the model, not of pocket (DESIGN.md section 5).",
}

PENDING = "check not built yet in this revision of /verif (work in progress; see DESIGN.md section 4 for the plan)"


def main():
    props = [json.loads(l)["id"] for l in open(os.path.join(VERIF, "properties.jsonl"))]
    checks, na = [], []
    for pid in props:
        if pid in CLAIMS:
            text, note, ref = CLAIMS[pid]
            checks.append({
                "property_id": pid,
                "quick_cmd": "./check %s --tier quick" % pid,
                "thorough_cmd": "./check %s --tier thorough" % pid,
                "evidence_file": "evidence/%s.json" % pid,
                "replay_cmd_template": "./check %s --replay {path}" % pid,
                "engine": "kani-cbmc",
                "level_claimed": {"category": "model_checking", "text": text, "design_ref": ref},
                "level_note": BASE_NOTE + note,
                "technique": TECH,
            })
        else:
            na.append({"property_id": pid, "reason": NOT_APPLICABLE.get(pid, PENDING)})
    m = {
        "version": 1,
        "setup_cmd": "./setup",
        "hooks": {
            "guard": "none (cfg(kani) harness modules are appended to a scratch copy of /repo; /repo itself carries no hooks)",
            "enable": "./check copies /repo's working tree to $VERIF_SCRATCH (default /var/tmp/pocket-verif), appends `#[cfg(kani)] #[path=..] mod verif_*;` lines to the copied sources and runs cargo kani there",
            "baseline_off_cmd": "cd /repo && cargo test --workspace --no-fail-fast --offline",
            "source_commits": [],
            "add_only": True,
        },
        "engines": [{
            "name": "kani-cbmc", "path": "check",
            "serves_properties": [c["property_id"] for c in checks],
            "kind_free_text": "Kani 0.68.0 (pinned toolchain) -> CBMC 6.11.0 -> CaDiCaL; driver lib/driver.py; harnesses harness/*.rs; "
                              "environment models model/{heed,mmap-append} for pocket-db",
        }],
        "checks": checks,
        "not_applicable": na,
        "notes": "Fix commits in /repo and known findings are listed in known_findings.txt. Exit codes: 0 held / 1 VIOLATION / 2 machinery broken.",
    }
    with open(os.path.join(VERIF, "MANIFEST.json"), "w") as f:
        json.dump(m, f, indent=1)
    print("MANIFEST.json: %d checks, %d not_applicable" % (len(checks), len(na)))


if __name__ == "__main__":
    main()
