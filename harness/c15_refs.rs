//@@ property: C15
//@@ crate: db
//@@ mount: pocket-db/src/event_store.rs
//@@ also: es_helper.rs@pocket-db/src/event_store.rs
use super::*;
include!("common_db.rs");

fn any_event<const S: usize>(buf: &mut [u8; S]) -> &Event {
    let lb = (S as u32).to_ne_bytes();
    buf[0] = lb[0];
    buf[1] = lb[1];
    buf[2] = lb[2];
    buf[3] = lb[3];
    let s: &[u8] = &buf[..];
    unsafe { &*(s as *const [u8] as *const Event) }
}

fn ref_across_growth(in_place: bool) {
    unsafe {
        mmap_append::verif::RESIZE_IN_PLACE = in_place;
    }
    let store = super::verif_es_helper::fresh_event_store();
    let mut ba: [u8; 152] = kani::any();
    let ea = any_event::<152>(&mut ba);
    let oa = ok!(store.store_event(ea));
    // a reference handed out by the store
    let r1 = ok!(unsafe { store.get_event_by_offset(oa) });
    let p1 = r1.as_bytes().as_ptr() as usize;
    // a later store that has to enlarge the file (8+152+152 > 256)
    let mut bb: [u8; 152] = kani::any();
    let eb = any_event::<152>(&mut bb);
    let ob = ok!(store.store_event(eb));
    assert!(ob == 160 && mmap_append::verif::file_len() == 512);
    // the same event now
    let r2 = ok!(unsafe { store.get_event_by_offset(oa) });
    let p2 = r2.as_bytes().as_ptr() as usize;
    let k: usize = kani::any();
    kani::assume(k < 152);
    assert!(r2.as_bytes()[k] == ba[k]); // bytes unchanged
    // the old reference must still denote them: same address (it is not dereferenced here)
    assert!(p1 == p2, "event reference invalidated: the mapping moved when the file grew");
    core::mem::forget(store);
}

macro_rules! db_harness {
    ($name:ident, $body:expr) => {
        #[kani::proof]
        #[kani::unwind(4)]
        #[kani::stub(core::panic::Location::caller, stub_caller)]
        #[kani::stub(<std::io::Error as std::fmt::Display>::fmt, stub_io_error_fmt)]
        #[kani::stub(<std::io::Error as std::string::ToString>::to_string, stub_io_to_string)]
        #[kani::stub(std::fs::File::set_len, stub_set_len)]
        #[kani::stub(std::fs::OpenOptions::open, stub_open)]
        #[kani::stub(std::fs::File::metadata, stub_metadata)]
        #[kani::stub(std::fs::Metadata::len, stub_metadata_len)]
        fn $name() {
            $body
        }
    };
}

//@ harness: c15_ref_across_growth_maymove
//@ tier: quick
//@ timeout: 1500
//@ mem: 14
//@ covers: none
//@ unwindset: mmap_append=170; memcmp.0=20
//@ cbmc: --max-field-sensitivity-array-size 1100
//@ encodes: EventStore::store_event (growth path: set_len + MmapAppend::resize), EventStore::get_event_by_offset
//@ bounds: fresh store, an arbitrary 152-byte event, a reference to it, then a second arbitrary event whose store enlarges the file; environment contract: MmapAppend::resize may move the mapping (mmap-append 0.2.0 calls mremap with MREMAP_MAYMOVE), modelled as a fresh buffer. The event's bytes are unchanged, but its address is not: the earlier reference dangles
//@ assumes: the mremap(MAYMOVE) contract: the kernel is free to return a different address
db_harness!(c15_ref_across_growth_maymove, ref_across_growth(false));

//@ harness: c15_ref_across_growth_inplace
//@ tier: quick
//@ timeout: 1500
//@ mem: 14
//@ covers: none
//@ unwindset: mmap_append=170; memcmp.0=20
//@ cbmc: --max-field-sensitivity-array-size 1100
//@ encodes: EventStore::store_event (growth path), EventStore::get_event_by_offset
//@ bounds: the same scenario under a non-moving resize (what a fixed reservation would give): address and bytes unchanged - shows the harness itself is satisfiable and isolates the finding to the moving remap
db_harness!(c15_ref_across_growth_inplace, ref_across_growth(true));
