#!/bin/bash
# usage: verify_seed.sh <worktree> <seed-name> <property> <demo-relative-path> <package>
# Confirms: existing suite passes with the change; demo fails with it and passes without it.
# Then files the seed under /verif/seeded/<seed-name>/.
set -u
WT=$1; NAME=$2; PROP=$3; DEMO=$4; PKG=$5
export CARGO_TARGET_DIR=$WT/target CARGO_NET_OFFLINE=true
cd "$WT" || exit 2
OUT=/verif/seeded/$NAME; mkdir -p "$OUT"
LOG=$OUT/verification.log; : > "$LOG"
T=$(basename "$DEMO" .rs)
git apply --check -R patch.diff 2>/dev/null || { echo "patch not applied in worktree" | tee -a $LOG; }
echo "### demo WITH the change (must fail)" >> $LOG
cargo test -p $PKG --test $T --offline >> $LOG 2>&1; WITH=$?
echo "### existing suite WITH the change, demo moved aside (must pass)" >> $LOG
mv "$DEMO" /tmp/_demo_$NAME.rs
cargo test --workspace --offline --no-fail-fast >> $LOG 2>&1; SUITE=$?
mv /tmp/_demo_$NAME.rs "$DEMO"
git apply -R patch.diff
echo "### demo WITHOUT the change (must pass)" >> $LOG
cargo test -p $PKG --test $T --offline >> $LOG 2>&1; WITHOUT=$?
git apply patch.diff
cp patch.diff "$OUT/patch.diff"; cp "$DEMO" "$OUT/$(basename $DEMO)"
echo "RESULT $NAME demo_with_change_exit=$WITH suite_with_change_exit=$SUITE demo_without_change_exit=$WITHOUT" | tee -a $LOG
