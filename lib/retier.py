#!/usr/bin/env python3
"""retier.py name=tier[:timeout] ... -- rewrite the //@ tier (and //@ timeout) line of named harness blocks."""
import glob, re, sys
want = {}
for a in sys.argv[1:]:
    n, t = a.split("=")
    to = None
    if ":" in t:
        t, to = t.split(":")
    want[n] = (t, to)
done = set()
for f in glob.glob("/verif/harness/*.rs"):
    lines = open(f).read().split("\n")
    cur = None
    ch = False
    for i, l in enumerate(lines):
        m = re.match(r"//@ harness:\s*(.+)", l)
        if m:
            names = m.group(1).split()
            cur = [n for n in names if n in want]
            if cur and len(names) > 1:
                print("multi-name block, skipped:", names); cur = None
            continue
        if cur and l.startswith("//@ tier:"):
            lines[i] = "//@ tier: " + want[cur[0]][0]; ch = True; done.add(cur[0])
            if want[cur[0]][1] is None: cur = None
        elif cur and l.startswith("//@ timeout:") and want[cur[0]][1]:
            lines[i] = "//@ timeout: " + want[cur[0]][1]; cur = None
        elif not l.startswith("//@"):
            cur = None
    if ch:
        open(f, "w").write("\n".join(lines))
print("retiered:", sorted(done)); print("missing:", sorted(set(want) - done))
