//@@ property: C18
//@@ crate: db
//@@ mount: pocket-db/src/lib.rs
//@@ also: db_lmdb_helper.rs@pocket-db/src/lmdb/mod.rs, es_helper.rs@pocket-db/src/event_store.rs
use crate::*;
include!("common_db.rs");
include!("img.rs");
include!("store_common.rs");

//@ harness: c18_ephemeral_kinds
//@ tier: quick
//@ timeout: 3000
//@ mem: 20
//@ covers: any
//@ unwindset: put_bytes=80; heed::bytes_=260; heed::Table=6; memcmp.0=70; repeat::Repeat=190; Repeat.*try_fold=190; mmap_append=200; read_hex=34; enc_tags=6
//@ cbmc: --max-field-sensitivity-array-size 1100
//@ encodes: Store::store_event (ephemeral branch), Kind::is_ephemeral, Store::has_event
//@ bounds: fresh store; one event without tags whose kind is ARBITRARY in 19990..=30010 (both boundaries of the ephemeral range) but not replaceable: the store succeeds, and the event is retrievable by id iff its kind is outside 20000..=29999; no deletion marker appears
//@ outside: vanish (two query sweeps plus removals: out of budget), removal among several events (thorough)
store_harness!(c18_ephemeral_kinds, {
    let store = verif_store();
    let k: u16 = kani::any();
    kani::assume(k >= 19990 && k <= 30010);
    kani::assume(k >= 20000); // 10000..19999 are replaceable: a different path (C09)
    let mut b = [0u8; 160];
    let n = enc_event_img(k, 77, &ID_A, &PK_1, &SIG_0, &[], b"", b"", &mut b);
    let o = outcome(store.store_event(as_event(&b[..n])));
    assert!(o == Outcome::Stored);
    kani::cover!(k == 30000);
    let eph = k >= 20000 && k <= 29999;
    assert!(has(&store, &ID_A) == !eph);
    assert!(!ok!(store.event_is_deleted(Id::from_bytes(ID_A))));
    core::mem::forget(store);
});

//@ harness: c18_remove_exactly_one
//@ tier: quick
//@ timeout: 2400
//@ mem: 16
//@ covers: none
//@ unwindset: put_bytes=80; heed::bytes_=260; heed::Table=6; memcmp.0=70; repeat::Repeat=190; Repeat.*try_fold=190; mmap_append=200; enc_tags=6
//@ cbmc: --max-field-sensitivity-array-size 1100
//@ encodes: Store::remove_event, Store::remove_by_id, Store::remove_by_offset, Lmdb::deindex, Store::has_event, Store::event_is_deleted
//@ bounds: two events of different authors with arbitrary created_at in 4096..=4351 each (one arbitrary byte each: earlier, equal, later) are in the store (seeded); remove_event of the first: it is no longer retrievable, carries no deletion marker, the second is still retrievable byte-identical; removing an absent id changes nothing
store_harness!(c18_remove_exactly_one, {
    let store = verif_store();
    // one arbitrary byte each (all three orders of the two times): 64-bit arbitrary times make
    // every index key byte symbolic and did not finish
    let l1: u8 = kani::any();
    let l2: u8 = kani::any();
    let t1: u64 = 0x1000 + l1 as u64;
    let t2: u64 = 0x1000 + l2 as u64;
    let mut b1 = [0u8; 160];
    let n1 = enc_event_img(1, t1, &ID_A, &PK_1, &SIG_0, &[], b"", b"x", &mut b1);
    let mut b2 = [0u8; 160];
    let n2 = enc_event_img(1, t2, &ID_B, &PK_2, &SIG_0, &[], b"", b"y", &mut b2);
    let _ = seed_stored(&store, as_event(&b1[..n1]));
    let _ = seed_stored(&store, as_event(&b2[..n2]));
    ok!(store.remove_event(Id::from_bytes(ID_A)));
    assert!(!has(&store, &ID_A) && has(&store, &ID_B));
    assert!(!ok!(store.event_is_deleted(Id::from_bytes(ID_A))));
    let other = some!(ok!(store.get_event_by_id(Id::from_bytes(ID_B))));
    assert!(other.as_bytes().len() == n2 && other.created_at().as_u64() == t2 && other.content()[0] == b'y');
    ok!(store.remove_event(Id::from_bytes(ID_C)));
    assert!(has(&store, &ID_B));
    let s = ok!(store.stats());
    assert!(s.index_stats.i_index_entries == 1 && s.index_stats.ci_index_entries == 1 && s.index_stats.deleted_index_entries == 0);
    core::mem::forget(s);
    core::mem::forget(store);
});
