//@@ property: C17
//@@ crate: db
//@@ mount: pocket-db/src/lib.rs
//@@ also: db_lmdb_helper.rs@pocket-db/src/lmdb/mod.rs, es_helper.rs@pocket-db/src/event_store.rs
use crate::*;
include!("common_db.rs");
include!("img.rs");
include!("store_common.rs");

//@ harness: c17_index_remove_mirror
//@ tier: thorough
//@ timeout: 3000
//@ mem: 20
//@ covers: none
//@ unwindset: put_bytes=80; heed::bytes_=260; heed::Table=6; memcmp.0=70; repeat::Repeat=190; Repeat.*try_fold=190; mmap_append=200; read_hex=34; enc_tags=6
//@ cbmc: --max-field-sensitivity-array-size 1100
//@ encodes: Store::store_event, Lmdb::index, Store::remove_event, Lmdb::deindex, Lmdb::deindex_id, Lmdb::stats
//@ bounds: fresh store; one event (kind 1, created_at arbitrary in 4096..=4351: one arbitrary byte) with the tags [e ab] [ee x] [p] [e ab]: a repeated indexable tag, a two-letter name, a name without value. After the store the id/time/author/author-kind indexes hold 1 entry each and the three tag indexes 1 each (the repeated tag shares its key); after remove_event every index count is 0 and the event is not retrievable
//@ outside: histories; values longer than 182 bytes
store_harness!(c17_index_remove_mirror, {
    let store = verif_store();
    let lo: u8 = kani::any();
    let t: u64 = 0x1000 + lo as u64;
    let mut b = [0u8; 220];
    let n = enc_event_img(1, t, &ID_A, &PK_1, &SIG_0, &[&[1, 2], &[2, 1], &[1], &[1, 2]], b"eabeexpeab", b"", &mut b);
    assert!(outcome(store.store_event(as_event(&b[..n]))) == Outcome::Stored);
    let s = ok!(store.stats());
    let ix = &s.index_stats;
    assert!(ix.i_index_entries == 1 && ix.ci_index_entries == 1 && ix.ac_index_entries == 1 && ix.akc_index_entries == 1);
    assert!(ix.tc_index_entries == 1 && ix.atc_index_entries == 1 && ix.ktc_index_entries == 1);
    assert!(ix.deleted_index_entries == 0 && ix.deleted_naddr_index_entries == 0);
    core::mem::forget(s);
    ok!(store.remove_event(Id::from_bytes(ID_A)));
    assert!(!has(&store, &ID_A));
    let s2 = ok!(store.stats());
    let iy = &s2.index_stats;
    assert!(iy.i_index_entries == 0 && iy.ci_index_entries == 0 && iy.ac_index_entries == 0 && iy.akc_index_entries == 0);
    assert!(iy.tc_index_entries == 0 && iy.atc_index_entries == 0 && iy.ktc_index_entries == 0);
    assert!(iy.deleted_index_entries == 0);
    core::mem::forget(s2);
    core::mem::forget(store);
});

//@ harness: c17_index_deindex_mirror_lmdb
//@ tier: thorough
//@ timeout: 2400
//@ mem: 16
//@ covers: any
//@ unwindset: put_bytes=80; heed::bytes_=260; heed::Table=6; memcmp.0=70; repeat::Repeat=190; Repeat.*try_fold=190; mmap_append=200; enc_tags=6
//@ cbmc: --max-field-sensitivity-array-size 1100
//@ encodes: EventStore::store_event, Lmdb::index, Lmdb::deindex, Lmdb::deindex_id, Lmdb::stats (through Store::stats)
//@ bounds: one event (kind 7, created_at arbitrary in 4096..=4351: one arbitrary byte) with the tags [L v(2 arbitrary bytes)] [q] [ ] - L an ARBITRARY one-byte tag name (either case, digits, any byte) - indexed with Lmdb::index and removed with Store::remove_event: counts 1/1/1/1 and 1/1/1 for the tag indexes after indexing (value-less and empty tags are not indexed), all zero after removal
store_harness!(c17_index_deindex_mirror_lmdb, {
    let store = verif_store();
    let lo: u8 = kani::any();
    let t: u64 = 0x1000 + lo as u64;
    let v: [u8; 2] = kani::any();
    // the tag name is ANY byte (lower case, upper case, digit, anything): whatever index() decides to
    // enter for it, deindex() has to remove
    let letter: u8 = kani::any();
    let pool = [letter, v[0], v[1], b'q'];
    let mut b = [0u8; 200];
    let n = enc_event_img(7, t, &ID_C, &PK_2, &SIG_0, &[&[1, 2], &[1], &[]], &pool, b"", &mut b);
    let _ = seed_stored(&store, as_event(&b[..n]));
    let s = ok!(store.stats());
    let ix = &s.index_stats;
    assert!(ix.i_index_entries == 1 && ix.ci_index_entries == 1 && ix.ac_index_entries == 1 && ix.akc_index_entries == 1);
    assert!(ix.tc_index_entries == 1 && ix.atc_index_entries == 1 && ix.ktc_index_entries == 1);
    kani::cover!(letter == b'P');
    core::mem::forget(s);
    ok!(store.remove_event(Id::from_bytes(ID_C)));
    let s2 = ok!(store.stats());
    let iy = &s2.index_stats;
    assert!(iy.i_index_entries == 0 && iy.ci_index_entries == 0 && iy.ac_index_entries == 0 && iy.akc_index_entries == 0);
    assert!(iy.tc_index_entries == 0 && iy.atc_index_entries == 0 && iy.ktc_index_entries == 0);
    assert!(!has(&store, &ID_C));
    core::mem::forget(s2);
    core::mem::forget(store);
});

//@ harness: c17_removal_parts_leave_other_event
//@ tier: thorough
//@ serves: C18
//@ timeout: 3000
//@ mem: 24
//@ covers: any
//@ unwindset: put_bytes=80; heed::bytes_=260; heed::Table=6; memcmp.0=70; repeat::Repeat=190; Repeat.*try_fold=190; mmap_append=200; read_hex=34; enc_tags=6
//@ cbmc: --max-field-sensitivity-array-size 1100
//@ encodes: EventStore::get_event_by_offset, Lmdb::deindex, Lmdb::deindex_id, Lmdb::get_offset_by_id, Lmdb::is_deleted (the three calls Store::remove_by_offset makes, composed by the harness in the same order: pocket's own wrapper is not evaluable by the symbolic executor, DESIGN.md 8.2 item 5)
//@ bounds: two events of different authors (kind 1, no tags) are in the store (seeded): the one to be removed with an ARBITRARY created_at in 4096..=4351, the other created at 8208; the first is removed with get_event_by_offset + Lmdb::deindex + Lmdb::deindex_id in one committed transaction: afterwards its id has no index entry and no deletion marker, and the second event's id entry still leads to its own offset
//@ outside: Store::remove_event / remove_by_offset themselves (their composition of these calls is read from lib.rs); tags; more than two events. Measured: did not finish in 900 s (one arbitrary time byte) / 1200 s (two) - INCONCLUSIVE so far; the one-event form of the same composition is evaluable in 91 s (DESIGN.md 8.2 item 5)
store_harness!(c17_removal_parts_leave_other_event, {
    let store = verif_store();
    // the removed event's time is arbitrary in one byte; the other event's time differs from it in a
    // higher, concrete byte, so that comparisons between the two events' keys are decided before the
    // arbitrary byte is reached (both times arbitrary did not finish in 1200 s)
    let l1: u8 = kani::any();
    let (t1, t2) = (0x1000 + l1 as u64, 0x2010u64);
    let mut b1 = [0u8; 160];
    let n1 = enc_event_img(1, t1, &ID_A, &PK_1, &SIG_0, &[], b"", b"x", &mut b1);
    let mut b2 = [0u8; 160];
    let n2 = enc_event_img(1, t2, &ID_B, &PK_2, &SIG_0, &[], b"", b"y", &mut b2);
    let off1 = seed_stored(&store, as_event(&b1[..n1]));
    let off2 = seed_stored(&store, as_event(&b2[..n2]));
    {
        let ev = ok!(unsafe { store.events.get_event_by_offset(off1 as usize) });
        let mut txn = ok!(store.indexes.write_txn());
        ok!(store.indexes.deindex(&mut txn, ev));
        ok!(store.indexes.deindex_id(&mut txn, ev.id()));
        ok!(txn.commit());
    }
    kani::cover!(l1 == 0xff);
    let txn = ok!(store.indexes.read_txn());
    assert!(ok!(store.indexes.get_offset_by_id(&txn, Id::from_bytes(ID_A))).is_none(), "the removed event still has an id entry");
    assert!(ok!(store.indexes.get_offset_by_id(&txn, Id::from_bytes(ID_B))) == Some(off2), "removing one event disturbed another event's id entry");
    assert!(!ok!(store.indexes.is_deleted(&txn, Id::from_bytes(ID_A))), "removal left a deletion marker");
    core::mem::forget(txn);
    let s = ok!(store.stats());
    let ix = &s.index_stats;
    assert!(ix.i_index_entries == 1 && ix.ci_index_entries == 1 && ix.ac_index_entries == 1 && ix.akc_index_entries == 1, "index entries leaked or were over-deleted");
    core::mem::forget(s);
    core::mem::forget(store);
});
