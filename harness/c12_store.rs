//@@ property: C12
//@@ crate: db
//@@ mount: pocket-db/src/lib.rs
//@@ also: db_lmdb_helper.rs@pocket-db/src/lmdb/mod.rs, es_helper.rs@pocket-db/src/event_store.rs
use crate::*;
include!("common_db.rs");
include!("img.rs");
include!("store_common.rs");

//@ harness: c12_duplicate_changes_nothing
//@ tier: quick
//@ timeout: 3000
//@ mem: 20
//@ covers: none
//@ unwindset: put_bytes=80; heed::bytes_=260; heed::Table=6; memcmp.0=70; repeat::Repeat=190; Repeat.*try_fold=190; mmap_append=200; read_hex=34; enc_tags=6
//@ cbmc: --max-field-sensitivity-array-size 1100
//@ encodes: Store::store_event (duplicate path), heed model transaction rollback
//@ bounds: fresh store; an event (kind 1, one indexable tag, created_at 1000) is in the store (seeded through EventStore::store_event + Lmdb::index); storing an event with the same id (kind 1; created_at arbitrary in 4096..=4351, first author byte and all 64 signature bytes arbitrary) fails as a duplicate, and the failing call made no durable commit that carried an effective put/delete - in the environment model the committed tables (all indexes, marker tables, extra tables) change only inside such a commit, so they are exactly what they were; the stored event is still the one retrievable
//@ outside: the other failure causes (thorough: c12_foreign_delete_changes_nothing), larger pre-states
store_harness!(c12_duplicate_changes_nothing, {
    let store = verif_store();
    let mut b = [0u8; 170];
    let n = enc_event_img(1, 1000, &ID_A, &PK_1, &SIG_0, &[&[1, 2]], b"eab", b"", &mut b);
    let _ = seed_stored(&store, as_event(&b[..n]));
    let env = crate::lmdb::verif_db_lmdb_helper::env_of(&store.indexes);
    let commits = heed::verif::mutating_commits(env);
    // the event offered: same id; created_at (one byte), first author byte and signature arbitrary.
    // (Arbitrary kind / 64-bit time / whole author ran out of memory: CBMC also explores the
    // continuation after the duplicate test, whose cost grows with every symbolic field.)
    let kind: u16 = 1;
    let lo: u8 = kani::any();
    let t: u64 = 0x1000 + lo as u64;
    let mut pk = PK_1;
    pk[0] = kani::any();
    let sig: [u8; 64] = kani::any();
    let mut b2 = [0u8; 170];
    let n2 = enc_event_img(kind, t, &ID_A, &pk, &sig, &[&[1, 2]], b"dab", b"", &mut b2);
    let o = outcome(store.store_event(as_event(&b2[..n2])));
    assert!(o == Outcome::Duplicate);
    assert!(heed::verif::mutating_commits(env) == commits);
    // the model's committed tables change only inside a durable commit(): no commit, no change
    assert!(has(&store, &ID_A));
    let still = some!(ok!(store.get_event_by_id(Id::from_bytes(ID_A))));
    assert!(still.kind().as_u16() == 1 && still.created_at().as_u64() == 1000);
    core::mem::forget(store);
});

//@ harness: c12_replaced_changes_nothing
//@ tier: quick
//@ timeout: 3000
//@ mem: 20
//@ covers: none
//@ unwindset: put_bytes=80; heed::bytes_=260; heed::Table=6; memcmp.0=70; repeat::Repeat=190; Repeat.*try_fold=190; mmap_append=200; read_hex=34; enc_tags=6
//@ cbmc: --max-field-sensitivity-array-size 1100
//@ encodes: Store::store_event (replaceable path: remove_replaceable scan, find_replaceable_event_inner, Replaced), heed model rollback
//@ bounds: a replaceable event (kind 10003, created_at 4224 = 0x1080) is in the store (seeded); an event at the same address with an arbitrary created_at in 4096..=4223 (one arbitrary byte) is refused as replaced - after the pre-removal scan has run inside the transaction - and no durable commit carried an effective put/delete (so every committed model table is exactly what it was); the holder is still retrievable, the refused event is not
store_harness!(c12_replaced_changes_nothing, {
    let store = verif_store();
    let mut b1 = [0u8; 160];
    let n1 = enc_event_img(10003, 0x1080, &ID_A, &PK_1, &SIG_0, &[], b"", b"", &mut b1);
    let _ = seed_stored(&store, as_event(&b1[..n1]));
    let env = crate::lmdb::verif_db_lmdb_helper::env_of(&store.indexes);
    let commits = heed::verif::mutating_commits(env);
    let lo: u8 = kani::any();
    let t: u64 = 0x1000 + lo as u64;
    kani::assume(t < 0x1080);
    let mut b2 = [0u8; 160];
    let n2 = enc_event_img(10003, t, &ID_B, &PK_1, &SIG_0, &[], b"", b"", &mut b2);
    let o = outcome(store.store_event(as_event(&b2[..n2])));
    assert!(o == Outcome::Replaced);
    assert!(heed::verif::mutating_commits(env) == commits);
    // the model's committed tables change only inside a durable commit(): no commit, no change
    assert!(has(&store, &ID_A) && !has(&store, &ID_B));
    core::mem::forget(store);
});

