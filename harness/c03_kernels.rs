//@@ property: C03
//@@ crate: types
//@@ mount: pocket-types/src/json/mod.rs
// Child module of `json`: reaches the private `utf8` kernels.
use super::utf8::{encode_utf8, next_code_point};
use super::{json_escape, json_unescape};
include!("common.rs");

//@ harness: c03_next_code_point_all
//@ tier: quick
//@ timeout: 300
//@ encodes: json::utf8::next_code_point
//@ bounds: every byte string of length 0..=5 (whole input space of the kernel: it reads at most 4 bytes)
#[kani::proof]
#[kani::unwind(8)]
#[kani::stub(core::panic::Location::caller, stub_caller)]
fn c03_next_code_point_all() {
    let buf: [u8; 5] = kani::any();
    let n: usize = kani::any();
    kani::assume(n <= 5);
    let r = next_code_point(&buf[..n]);
    match r {
        Ok(Some((cp, size))) => {
            kani::cover!(size == 4);
            assert!(size >= 1 && size <= 4 && size <= n);
            assert!(cp <= 0x1F_FFFF);
            // faithful on well-formed sequences (std is the independent decoder)
            if let Ok(s) = core::str::from_utf8(&buf[..size]) {
                let c = s.chars().next().unwrap();
                assert!(c as u32 == cp && c.len_utf8() == size);
            }
        }
        Ok(None) => assert!(n == 0),
        Err(e) => {
            assert!(n >= 1 && buf[0] >= 0x80);
            core::mem::forget(e);
        }
    }
}

//@ harness: c03_encode_utf8_all
//@ tier: quick
//@ timeout: 300
//@ encodes: json::utf8::encode_utf8
//@ bounds: every u32 code and every destination length 0..=5: no out-of-bounds write through get_unchecked_mut, result equals char::encode_utf8 for every scalar value
#[kani::proof]
#[kani::unwind(8)]
#[kani::stub(core::panic::Location::caller, stub_caller)]
fn c03_encode_utf8_all() {
    let code: u32 = kani::any();
    let mut dst: [u8; 5] = [0xEE; 5];
    let n: usize = kani::any();
    kani::assume(n <= 5);
    let r = encode_utf8(code, &mut dst[..n]);
    match r {
        Ok(len) => {
            assert!(len >= 1 && len <= 4 && len <= n);
            let i: usize = kani::any();
            kani::assume(i < 5);
            if i >= len {
                assert!(dst[i] == 0xEE); // nothing written past the reported length
            }
            if let Some(c) = char::from_u32(code) {
                let mut refbuf = [0u8; 4];
                let s = c.encode_utf8(&mut refbuf);
                kani::cover!(s.len() == 3);
                assert!(s.len() == len);
                if i < len {
                    assert!(refbuf[i] == dst[i]);
                }
            }
        }
        Err(e) => {
            let need = if code < 0x80 { 1 } else if code < 0x800 { 2 } else if code < 0x10000 { 3 } else { 4 };
            assert!(n < need);
            core::mem::forget(e);
        }
    }
}

fn unescape_n<const N: usize, const OUT: usize>() {
    let buf: [u8; N] = kani::any();
    let n: usize = kani::any();
    kani::assume(n <= N);
    let mut out = [0xEEu8; OUT];
    let m: usize = kani::any();
    kani::assume(m <= OUT);
    let r = json_unescape(&buf[..n], &mut out[..m]);
    match r {
        Ok((consumed, written)) => {
            kani::cover!(written > 0);
            assert!(consumed <= n);
            assert!(written <= m);
            let i: usize = kani::any();
            kani::assume(i < OUT);
            if i >= written {
                assert!(out[i] == 0xEE);
            }
        }
        Err(e) => core::mem::forget(e),
    }
}

//@ harness: c03_unescape_arb3
//@ tier: quick
//@ timeout: 900
//@ encodes: json::json_unescape, next_code_point, encode_utf8
//@ bounds: every input of length 0..=3 (arbitrary bytes) and every output length 0..=4: no panic, consumed <= input length, written <= output length, nothing written past it
//@ outside: inputs longer than 3 bytes in quick (5 in thorough: c03_unescape_arb5)
#[kani::proof]
#[kani::unwind(6)]
#[kani::stub(core::panic::Location::caller, stub_caller)]
fn c03_unescape_arb3() {
    unescape_n::<3, 4>();
}

//@ harness: c03_unescape_arb5
//@ tier: thorough
//@ timeout: 2400
//@ mem: 16
//@ encodes: json::json_unescape, next_code_point, encode_utf8
//@ bounds: every input of length 0..=5 and every output length 0..=6
#[kani::proof]
#[kani::unwind(8)]
#[kani::stub(core::panic::Location::caller, stub_caller)]
fn c03_unescape_arb5() {
    unescape_n::<5, 6>();
}

//@ harness: c03_unescape_uescape
//@ tier: quick
//@ timeout: 900
//@ encodes: json::json_unescape (\uXXXX path), encode_utf8
//@ bounds: the text \uXXXX" with four arbitrary bytes in place of the hex digits and output length 0..=4: no panic, consumed <= length, written <= output length; for ASCII bytes: accepted iff all four are hex digits and the value is not a surrogate (and the buffer suffices), the output is the UTF-8 encoding of the value
#[kani::proof]
#[kani::unwind(10)]
#[kani::stub(core::panic::Location::caller, stub_caller)]
fn c03_unescape_uescape() {
    let d: [u8; 4] = kani::any();
    let text = [b'\\', b'u', d[0], d[1], d[2], d[3], b'"', b'x'];
    let mut out = [0u8; 4];
    let m: usize = kani::any();
    kani::assume(m <= 4);
    let hv = |c: u8| -> Option<u32> {
        match c {
            b'0'..=b'9' => Some((c - b'0') as u32),
            b'a'..=b'f' => Some((c - b'a') as u32 + 10),
            b'A'..=b'F' => Some((c - b'A') as u32 + 10),
            _ => None,
        }
    };
    let val = match (hv(d[0]), hv(d[1]), hv(d[2]), hv(d[3])) {
        (Some(a), Some(b), Some(c), Some(e)) => Some(a << 12 | b << 8 | c << 4 | e),
        _ => None,
    };
    let r = json_unescape(&text, &mut out[..m]);
    match r {
        Ok((consumed, written)) => {
            assert!(consumed <= text.len() && written <= m);
            // exactness is claimed for well-formed (here: ASCII) input only: a lead byte >= 0xC0
            // in the last digit position can swallow the closing quote as a continuation byte
            // (\u000 0xC1 " decodes to the digit 'b'), which is not valid UTF-8, hence not JSON
            if !(d[0] < 0x80 && d[1] < 0x80 && d[2] < 0x80 && d[3] < 0x80) {
                return;
            }
            assert!(consumed == 6);
            let v = val.unwrap();
            assert!(!(0xD800..=0xDFFF).contains(&v));
            let c = char::from_u32(v).unwrap();
            let mut rb = [0u8; 4];
            let s = c.encode_utf8(&mut rb);
            kani::cover!(written == 3);
            assert!(written == s.len() && written <= m);
            let i: usize = kani::any();
            kani::assume(i < 4);
            if i < written {
                assert!(out[i] == rb[i]);
            }
        }
        Err(e) => {
            // must be a genuine reason: bad digit, surrogate, or buffer too small
            if let Some(v) = val {
                if !(0xD800..=0xDFFF).contains(&v) {
                    let need = if v < 0x80 { 1 } else if v < 0x800 { 2 } else { 3 };
                    assert!(m < need);
                }
            }
            core::mem::forget(e);
        }
    }
}

//@ harness: c03_escape_arb2
//@ tier: thorough
//@ timeout: 2400
//@ encodes: json::json_escape, next_code_point
//@ bounds: every input of length 0..=2 with bytes >= 0x20 (control characters go through format!, decided per code point in C08): no panic; Ok unless the input ends inside a multi-byte sequence
//@ outside: longer inputs; control characters here (see C08)
#[kani::proof]
#[kani::unwind(6)]
#[kani::stub(core::panic::Location::caller, stub_caller)]
fn c03_escape_arb2() {
    let buf: [u8; 2] = kani::any();
    kani::assume(buf[0] >= 0x20 && buf[1] >= 0x20);
    let n: usize = kani::any();
    kani::assume(n <= 2);
    let out: Vec<u8> = Vec::with_capacity(16);
    let r = json_escape(&buf[..n], out);
    match r {
        Ok(v) => {
            kani::cover!(v.len() == 4);
            assert!(v.len() >= n && v.len() <= 2 * n);
            core::mem::forget(v);
        }
        Err(e) => core::mem::forget(e),
    }
}
