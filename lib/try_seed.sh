#!/bin/bash
# usage: try_seed.sh <seed-name | dir containing patch.diff> <PROPERTY> [check args...]
# Runs a check against a seeded change (seeded/<name>/patch.diff) or against the reverse of one of
# the fix commits (regress/<commit>/patch.diff).  Works on a throw-away copy of /repo (so that
# /repo itself stays clean and several can be tried in parallel); the copy is removed afterwards.
# The documented procedure on /repo itself is equivalent:
#   git -C /repo apply <dir>/patch.diff && ./check <P> ...; git -C /repo checkout -- .
S=$1; [ -d "$S" ] || S=/verif/seeded/$1; S=$(cd $S && pwd); P=$2; shift 2
R=/var/tmp/pv/seedrepo-$(basename $S)-$$
rm -rf $R; mkdir -p $R; rsync -a --exclude target --exclude .git /repo/ $R/
( cd $R && git init -q && git apply $S/patch.diff ) || { echo "cannot apply $S"; rm -rf $R; exit 2; }
cd /verif
L=$S/detection.$P.log
VERIF_REPO=$R ./check $P --no-evidence "$@" > $L 2>&1; RC=$?
rm -rf $R
echo "SEED $(basename $S) check=$P $* exit=$RC $(grep -c '^VIOLATION' $L) violation line(s)" | tee -a $L
