//@@ property: C01
//@@ crate: types
//@@ mount: pocket-types/src/lib.rs
// The value skippers (`burn_*`) that step over unknown members of event and filter objects,
// decided on ARBITRARY input bytes against reference recognisers written from RFC 8259.
// Event::from_json / Filter::from_json reach them through burn_key_and_value_after_quote;
// a skipper that stops one byte early or late desynchronises the member loop, and one that
// refuses a valid value makes a valid text with an unknown member unparseable.
use crate::error::Error;
use crate::json::json_parse::{burn_key_and_value, burn_string, burn_value};
include!("common.rs");

/// The skippers are mutually recursive (burn_value -> burn_array/burn_object -> burn_value ...), and
/// once the read position is symbolic every dispatch explores every branch: three levels are
/// already out of memory.  Each kernel therefore replaces the skippers its inputs can never reach
/// by this stub; the stub's assertion is decided like any other, so "never reached" is part of
/// the verdict, not an assumption.
pub fn stub_not_reached(_input: &[u8], _inposp: &mut usize) -> Result<(), Error> {
    panic!("container/string skipper reached from a number");
}

/// RFC 8259 number: [-] (0 | [1-9][0-9]*) [. [0-9]+] [(e|E) [+|-] [0-9]+].
/// Returns true iff t[..k] is exactly one number.
fn ref_is_number(t: &[u8], k: usize) -> bool {
    // states: 0 start, 1 after '-', 2 after leading 0, 3 in int, 4 after '.', 5 in frac,
    //         6 after e, 7 after e sign, 8 in exp, 9 reject
    let mut s = 0u8;
    let mut i = 0;
    while i < k {
        let c = t[i];
        let d = c >= b'0' && c <= b'9';
        s = match s {
            0 => if c == b'-' { 1 } else if c == b'0' { 2 } else if d { 3 } else { 9 },
            1 => if c == b'0' { 2 } else if d { 3 } else { 9 },
            2 => if c == b'.' { 4 } else if c == b'e' || c == b'E' { 6 } else { 9 },
            3 => if d { 3 } else if c == b'.' { 4 } else if c == b'e' || c == b'E' { 6 } else { 9 },
            4 => if d { 5 } else { 9 },
            5 => if d { 5 } else if c == b'e' || c == b'E' { 6 } else { 9 },
            6 => if d { 8 } else if c == b'+' || c == b'-' { 7 } else { 9 },
            7 => if d { 8 } else { 9 },
            8 => if d { 8 } else { 9 },
            _ => 9,
        };
        i += 1;
    }
    s == 2 || s == 3 || s == 5 || s == 8
}

/// the bytes that may follow a value inside an object or array
fn is_delim(c: u8) -> bool {
    c == b',' || c == b'}' || c == b']' || c == b' ' || c == b'\t' || c == b'\n' || c == b'\r'
}

//@ harness: c01_kernel_burn_number
//@ tier: quick
//@ timeout: 900
//@ mem: 12
//@ unwindset: burn_number=9; ref_is_number=9; memchr=34; burn_string=9; eat_whitespace=9; memcmp.0=6
//@ encodes: json_parse::burn_value (dispatch on the first byte), json_parse::burn_number
//@ bounds: every RFC 8259 number of 1..=6 bytes (symbolic length, arbitrary bytes accepted by a reference recogniser: optional minus, 0 or non-zero-leading integer, optional fraction, optional exponent with either case and sign) followed by an arbitrary delimiter byte (comma, closing brace/bracket, any JSON whitespace) and arbitrary further bytes (8-byte input): burn_value accepts it and stops exactly on the delimiter
//@ outside: numbers longer than 6 bytes
#[kani::proof]
#[kani::unwind(2)]
#[kani::stub(core::panic::Location::caller, stub_caller)]
#[kani::stub(crate::json::json_parse::burn_array, stub_not_reached)]
#[kani::stub(crate::json::json_parse::burn_object, stub_not_reached)]
#[kani::stub(crate::json::json_parse::burn_string, stub_not_reached)]
fn c01_kernel_burn_number() {
    // the number occupies t[..k], a delimiter follows, the bytes after it are arbitrary
    // (the slice handed to the skipper has a constant length: a symbolic length makes every
    // bounds test symbolic - 2.1 M steps and 60 M clauses against a fraction of that)
    let t: [u8; 8] = kani::any();
    let k: usize = kani::any();
    kani::assume(k >= 1 && k <= 6);
    kani::assume(ref_is_number(&t, k));
    kani::assume(is_delim(t[k]));
    let mut pos = 0;
    match burn_value(&t, &mut pos) {
        Ok(()) => {
            kani::cover!(k == 6);
            kani::cover!(t[0] == b'0');
            assert!(pos == k);
        }
        Err(e) => {
            core::mem::forget(e);
            panic!("valid JSON number refused as the value of an unknown member");
        }
    }
}

/// offset just past the closing quote of a string body starting at t[0], if the body is
/// well-formed up to there (every backslash starts a legal escape; no raw quote inside)
fn ref_string_end(t: &[u8], n: usize) -> Option<usize> {
    let mut i = 0;
    // at most n steps
    let mut steps = 0;
    while steps <= n {
        if i >= n {
            return None;
        }
        let c = t[i];
        if c == b'"' {
            return Some(i + 1);
        }
        if c == b'\\' {
            if i + 1 >= n {
                return None;
            }
            let e = t[i + 1];
            let legal = e == b'"' || e == b'\\' || e == b'/' || e == b'b' || e == b'f' || e == b'n' || e == b'r' || e == b't' || e == b'u';
            if !legal {
                return None;
            }
            i += 2;
        } else {
            i += 1;
        }
        steps += 1;
    }
    None
}

//@ harness: c01_kernel_burn_string
//@ tier: quick
//@ timeout: 900
//@ mem: 12
//@ unwindset: burn_string=9; ref_string_end=10
//@ encodes: json_parse::burn_string (skipped strings: unknown-member keys and values, content before tags, the counting pass over tags)
//@ bounds: every input of 0..=7 arbitrary bytes (symbolic length) read as a string body after its opening quote: if the body is well-formed up to an unescaped quote (every backslash starts a legal two-character escape) burn_string accepts and stops just past that quote - also when the character before the quote is an escaped backslash; on every input the position never exceeds the length and nothing panics
//@ outside: bodies longer than 7 bytes; \u escapes are stepped over as a pair plus literal hex digits
#[kani::proof]
#[kani::unwind(4)]
#[kani::stub(core::panic::Location::caller, stub_caller)]
fn c01_kernel_burn_string() {
    let t: [u8; 7] = kani::any();
    let n: usize = kani::any();
    kani::assume(n <= 7);
    let want = ref_string_end(&t, n);
    let mut pos = 0;
    let r = burn_string(&t[..n], &mut pos);
    assert!(pos <= n);
    match r {
        Ok(()) => {
            kani::cover!(pos == 7);
            if let Some(w) = want {
                assert!(pos == w);
            }
        }
        Err(e) => {
            core::mem::forget(e);
            assert!(want.is_none());
        }
    }
}

/// one scalar JSON value chosen by `sel`, written at t[at..]; returns its length
fn put_scalar(t: &mut [u8], at: usize, sel: u8, d: u8, c: u8) -> usize {
    // d: an arbitrary digit, c: an arbitrary plain ASCII character (no quote, backslash, control)
    match sel {
        0 => { t[at] = b'0'; 1 }
        1 => { t[at] = b'-'; t[at + 1] = d; 2 }
        2 => { t[at] = d; t[at + 1] = b'.'; t[at + 2] = b'5'; 3 }
        3 => { t[at] = b'"'; t[at + 1] = c; t[at + 2] = b'"'; 3 }
        4 => { t[at] = b'"'; t[at + 1] = b'\\'; t[at + 2] = b'\\'; t[at + 3] = b'"'; 4 }
        5 => { t[at] = b't'; t[at + 1] = b'r'; t[at + 2] = b'u'; t[at + 3] = b'e'; 4 }
        6 => { t[at] = b'f'; t[at + 1] = b'a'; t[at + 2] = b'l'; t[at + 3] = b's'; t[at + 4] = b'e'; 5 }
        7 => { t[at] = b'n'; t[at + 1] = b'u'; t[at + 2] = b'l'; t[at + 3] = b'l'; 4 }
        8 => { t[at] = b'"'; t[at + 1] = b'"'; 2 }
        _ => { t[at] = d; 1 }
    }
}

fn any_ws() -> u8 {
    let w: u8 = kani::any();
    kani::assume(w == b' ' || w == b'\t' || w == b'\n' || w == b'\r');
    w
}

//@ harness: c01_kernel_burn_value_array c01_kernel_burn_value_object
//@ tier: thorough
//@ timeout: 1500
//@ mem: 16
//@ unwindset: burn_number=8; memchr=34; burn_string=8; eat_whitespace=4; eat_whitespace_and_commas=5; burn_array=4; burn_object=4; memcmp.0=7
//@ encodes: json_parse::burn_value, burn_array, burn_object, burn_key_and_value, burn_string, burn_number, burn_true, burn_false, burn_null, eat_colon_with_whitespace
//@ bounds: the value of an unknown member is the array `[` ws? V `,` ws? W ws? `]` (resp. the object `{` ws? "k" ws? `:` ws? V `,` "m" `:` W ws? `}`) where V and W are each chosen ARBITRARILY among 0, -d, d.5, "c", "\\", true, false, null, "", d (d an arbitrary digit, c an arbitrary printable character), each optional whitespace slot is absent or one arbitrary JSON whitespace byte, followed by an arbitrary delimiter: burn_value accepts and stops exactly on the delimiter
//@ outside: containers nested inside the skipped container (constant texts in c01_text_ws_unknown_deferred; the other container kind is stubbed by an assertion that it is not reached), longer scalars (c01_kernel_burn_number / c01_kernel_burn_string)
macro_rules! burn_container {
    ($name:ident, $object:expr, $other:path) => {
        #[kani::proof]
        #[kani::unwind(2)]
        #[kani::stub(core::panic::Location::caller, stub_caller)]
        #[kani::stub($other, stub_not_reached)]
        fn $name() {
            let mut t = [b' '; 24];
            let d: u8 = kani::any();
            kani::assume(d >= b'1' && d <= b'9');
            let c: u8 = kani::any();
            kani::assume(c >= 0x20 && c < 0x7f && c != b'"' && c != b'\\');
            let s1: u8 = kani::any();
            let s2: u8 = kani::any();
            kani::assume(s1 <= 9 && s2 <= 9);
            let ws: [bool; 4] = [kani::any(), kani::any(), kani::any(), kani::any()];
            let mut n = 0;
            t[n] = if $object { b'{' } else { b'[' };
            n += 1;
            if ws[0] { t[n] = any_ws(); n += 1; }
            if $object {
                t[n] = b'"'; t[n + 1] = b'k'; t[n + 2] = b'"'; n += 3;
                if ws[1] { t[n] = any_ws(); n += 1; }
                t[n] = b':'; n += 1;
                if ws[2] { t[n] = any_ws(); n += 1; }
            }
            n += put_scalar(&mut t, n, s1, d, c);
            t[n] = b','; n += 1;
            if !$object && ws[1] { t[n] = any_ws(); n += 1; }
            if $object {
                t[n] = b'"'; t[n + 1] = b'm'; t[n + 2] = b'"'; t[n + 3] = b':'; n += 4;
            }
            n += put_scalar(&mut t, n, s2, d, c);
            if ws[3] { t[n] = any_ws(); n += 1; }
            t[n] = if $object { b'}' } else { b']' };
            n += 1;
            let delim: u8 = kani::any();
            kani::assume(is_delim(delim));
            t[n] = delim;
            let mut pos = 0;
            // constant-length slice (see c01_kernel_burn_number); the bytes after the delimiter are spaces
            match burn_value(&t, &mut pos) {
                Ok(()) => {
                    kani::cover!(s1 == 0 && s2 == 4);
                    assert!(pos == n);
                }
                Err(e) => {
                    core::mem::forget(e);
                    panic!("valid JSON value refused as the value of an unknown member");
                }
            }
        }
    };
}
burn_container!(c01_kernel_burn_value_array, false, crate::json::json_parse::burn_object);
burn_container!(c01_kernel_burn_value_object, true, crate::json::json_parse::burn_array);

//@ harness: c01_kernel_burn_key_and_value
//@ tier: quick
//@ timeout: 1200
//@ mem: 12
//@ unwindset: burn_number=8; memchr=34; burn_string=8; eat_whitespace=4; eat_whitespace_and_commas=5; burn_array=4; burn_object=4; memcmp.0=7
//@ encodes: json_parse::burn_key_and_value, burn_key_and_value_after_quote, eat_colon_with_whitespace, burn_value
//@ bounds: an unknown member "K" ws? : ws? V with K = two arbitrary bytes forming a well-formed string body (including an escaped quote or an escaped backslash), V arbitrary among the ten scalar shapes above, optional arbitrary whitespace on either side of the colon, followed by an arbitrary delimiter: accepted, stops exactly on the delimiter
#[kani::proof]
#[kani::unwind(2)]
#[kani::stub(core::panic::Location::caller, stub_caller)]
#[kani::stub(crate::json::json_parse::burn_array, stub_not_reached)]
#[kani::stub(crate::json::json_parse::burn_object, stub_not_reached)]
fn c01_kernel_burn_key_and_value() {
    let mut t = [b' '; 16];
    let d: u8 = kani::any();
    kani::assume(d >= b'1' && d <= b'9');
    let c: u8 = kani::any();
    kani::assume(c >= 0x20 && c < 0x7f && c != b'"' && c != b'\\');
    let k: [u8; 2] = kani::any();
    // a well-formed two-byte body: two plain bytes, or one legal escape
    let plain = |b: u8| b >= 0x20 && b != b'"' && b != b'\\';
    let esc = k[0] == b'\\' && (k[1] == b'"' || k[1] == b'\\' || k[1] == b'/' || k[1] == b'n');
    kani::assume((plain(k[0]) && plain(k[1])) || esc);
    let s: u8 = kani::any();
    kani::assume(s <= 9);
    let ws: [bool; 2] = [kani::any(), kani::any()];
    let mut n = 0;
    t[0] = b'"'; t[1] = k[0]; t[2] = k[1]; t[3] = b'"'; n += 4;
    if ws[0] { t[n] = any_ws(); n += 1; }
    t[n] = b':'; n += 1;
    if ws[1] { t[n] = any_ws(); n += 1; }
    n += put_scalar(&mut t, n, s, d, c);
    let delim: u8 = kani::any();
    kani::assume(is_delim(delim));
    t[n] = delim;
    let mut pos = 0;
    match burn_key_and_value(&t, &mut pos) {
        Ok(()) => {
            kani::cover!(esc && s == 0);
            assert!(pos == n);
        }
        Err(e) => {
            core::mem::forget(e);
            panic!("valid unknown member refused");
        }
    }
}
