//! Environment MODEL of the subset of `heed` 0.20 (LMDB bindings) that pocket-db uses.
//!
//! Contract modelled (see /verif/DESIGN.md 2.3): named tables map unique byte-string keys
//! to values; iteration and range scans are in lexicographic key order; the effects of a
//! write transaction are invisible to read transactions until `commit()` and vanish when
//! the transaction is dropped; a read transaction sees the last committed state (also when
//! opened while this thread holds the write transaction: NO_TLS); `commit()` is atomic.
//! Keys longer than 511 bytes are refused (MDB_BAD_VALSIZE) as LMDB does.
//!
//! Written for a bounded model checker: fixed-capacity tables, no allocation, copy-on-write
//! per table.  Limits (capacity, key size per table, a read transaction used across a later
//! commit) are *model limits*: hitting one panics natively and is an `assume(false)`-free
//! assertion failure under Kani, so it can never be mistaken for a pass.
#![allow(clippy::all, dead_code, unused_variables)]

use std::marker::PhantomData;
use std::ops::{Bound, Deref};
use std::path::Path;

#[cfg(kani)]
pub const CAP: usize = 4;
#[cfg(not(kani))]
pub const CAP: usize = 96;

pub const NT: usize = 12;
const VMAX: usize = 8;
pub const LMDB_MAX_KEY: usize = 511;

pub mod byteorder {
    #[derive(Debug, Clone, Copy)]
    pub struct NativeEndian;
    pub type NE = NativeEndian;
}

// ---------------------------------------------------------------------------
// errors: payload-free so that drop glue is trivial
// ---------------------------------------------------------------------------
#[derive(Debug, Clone, Copy, PartialEq, Eq)]
pub enum MdbError {
    KeyExist,
    NotFound,
    MapFull,
    DbsFull,
    BadValSize,
    Other,
}

#[derive(Debug, Clone, Copy, PartialEq, Eq)]
pub enum Error {
    Mdb(MdbError),
    DatabaseClosing,
    BadOpenOptions,
    ModelLimit,
}

impl std::fmt::Display for Error {
    fn fmt(&self, f: &mut std::fmt::Formatter<'_>) -> std::fmt::Result {
        match self {
            Error::Mdb(_) => f.write_str("mdb error (model)"),
            Error::DatabaseClosing => f.write_str("database closing (model)"),
            Error::BadOpenOptions => f.write_str("bad open options (model)"),
            Error::ModelLimit => f.write_str("model limit"),
        }
    }
}
impl std::error::Error for Error {}
pub type Result<T> = std::result::Result<T, Error>;

/// explicit byte loops: they constant-fold under symbolic execution where the
/// memcmp/memcpy builtins behind `==`/`copy_from_slice` do not
#[inline]
fn bytes_eq(a: &[u8], b: &[u8]) -> bool {
    if a.len() != b.len() {
        return false;
    }
    let mut i = 0;
    while i < a.len() {
        if a[i] != b[i] {
            return false;
        }
        i += 1;
    }
    true
}
/// lexicographic: -1, 0, 1
#[inline]
fn bytes_cmp(a: &[u8], b: &[u8]) -> i8 {
    let n = if a.len() < b.len() { a.len() } else { b.len() };
    let mut i = 0;
    while i < n {
        if a[i] != b[i] {
            return if a[i] < b[i] { -1 } else { 1 };
        }
        i += 1;
    }
    if a.len() < b.len() {
        -1
    } else if a.len() > b.len() {
        1
    } else {
        0
    }
}
#[inline]
fn bytes_copy(dst: &mut [u8], src: &[u8]) {
    let mut i = 0;
    while i < src.len() {
        dst[i] = src[i];
        i += 1;
    }
}

#[inline(never)]
fn model_limit(what: &'static str) -> ! {
    panic!("heed model limit: {}", what)
}

// ---------------------------------------------------------------------------
// state
// ---------------------------------------------------------------------------
#[derive(Clone, Copy)]
pub struct Table<const K: usize> {
    pub used: [bool; CAP],
    pub klen: [u16; CAP],
    pub key: [[u8; K]; CAP],
    pub vlen: [u8; CAP],
    pub val: [[u8; VMAX]; CAP],
}

impl<const K: usize> Table<K> {
    pub const fn new() -> Self {
        Table { used: [false; CAP], klen: [0; CAP], key: [[0; K]; CAP], vlen: [0; CAP], val: [[0; VMAX]; CAP] }
    }
    fn find(&self, key: &[u8]) -> Option<usize> {
        let mut i = 0;
        while i < CAP {
            if self.used[i] && self.klen[i] as usize == key.len() && bytes_eq(&self.key[i][..key.len()], key) {
                return Some(i);
            }
            i += 1;
        }
        None
    }
    fn get(&self, key: &[u8]) -> Option<&[u8]> {
        if key.len() > K {
            return None;
        }
        match self.find(key) {
            Some(i) => Some(&self.val[i][..self.vlen[i] as usize]),
            None => None,
        }
    }
    fn put(&mut self, key: &[u8], val: &[u8]) -> Result<()> {
        if key.len() > LMDB_MAX_KEY || key.is_empty() {
            return Err(Error::Mdb(MdbError::BadValSize));
        }
        if key.len() > K {
            model_limit("key longer than this table's modelled key size");
        }
        if val.len() > VMAX {
            model_limit("value longer than modelled value size");
        }
        let slot = match self.find(key) {
            Some(i) => i,
            None => {
                let mut i = 0;
                let mut free = CAP;
                while i < CAP {
                    if !self.used[i] && free == CAP {
                        free = i;
                    }
                    i += 1;
                }
                if free == CAP {
                    model_limit("table capacity exceeded");
                }
                free
            }
        };
        // The slot may be a symbolic value for the model checker (it depends on comparisons with
        // keys that contain arbitrary bytes).  A write at a symbolic row index of the key matrix is
        // catastrophic for CBMC's symbolic executor (measured: 8 copies of 250 bytes into a row chosen
        // by a symbolic value: > 20 min, against 5 s for a constant row), so every row is visited with
        // a constant index and written under the guard `i == slot`.
        let mut i = 0;
        while i < CAP {
            if i == slot {
                self.used[i] = true;
                self.klen[i] = key.len() as u16;
                bytes_copy(&mut self.key[i], key);
                self.vlen[i] = val.len() as u8;
                bytes_copy(&mut self.val[i], val);
            }
            i += 1;
        }
        Ok(())
    }
    fn delete(&mut self, key: &[u8]) -> bool {
        if key.len() > K {
            return false;
        }
        match self.find(key) {
            Some(slot) => {
                let mut i = 0;
                while i < CAP {
                    if i == slot {
                        self.used[i] = false;
                    }
                    i += 1;
                }
                true
            }
            None => false,
        }
    }
    fn len(&self) -> u64 {
        let mut n = 0;
        let mut i = 0;
        while i < CAP {
            if self.used[i] {
                n += 1;
            }
            i += 1;
        }
        n
    }
    /// index of the smallest key that is within (lo, hi) and strictly greater than `after`
    fn next_in_order(&self, lo: &KeyBound, hi: &KeyBound, after: &KeyBound) -> Option<usize> {
        let mut best: Option<usize> = None;
        let mut i = 0;
        while i < CAP {
            if self.used[i] {
                let k = &self.key[i][..self.klen[i] as usize];
                let ok_lo = match lo.kind {
                    0 => true,
                    1 => bytes_cmp(k, lo.get()) >= 0,
                    _ => bytes_cmp(k, lo.get()) > 0,
                };
                let ok_hi = match hi.kind {
                    0 => true,
                    1 => bytes_cmp(k, hi.get()) <= 0,
                    _ => bytes_cmp(k, hi.get()) < 0,
                };
                let ok_after = match after.kind {
                    0 => true,
                    _ => bytes_cmp(k, after.get()) > 0,
                };
                if ok_lo && ok_hi && ok_after {
                    best = match best {
                        None => Some(i),
                        Some(b) => {
                            if bytes_cmp(k, &self.key[b][..self.klen[b] as usize]) < 0 {
                                Some(i)
                            } else {
                                Some(b)
                            }
                        }
                    };
                }
            }
            i += 1;
        }
        best
    }
    /// order-insensitive equality (slot positions are not observable)
    pub fn same_as(&self, other: &Self) -> bool {
        if self.len() != other.len() {
            return false;
        }
        let mut i = 0;
        while i < CAP {
            if self.used[i] {
                let k = &self.key[i][..self.klen[i] as usize];
                match other.find(k) {
                    Some(j) => {
                        if self.vlen[i] != other.vlen[j] || !bytes_eq(&self.val[i][..self.vlen[i] as usize], &other.val[j][..other.vlen[j] as usize]) {
                            return false;
                        }
                    }
                    None => return false,
                }
            }
            i += 1;
        }
        true
    }
}

pub const KBUF: usize = 256;
#[derive(Clone, Copy)]
pub struct KeyBound {
    kind: u8, // 0 unbounded, 1 included, 2 excluded
    len: usize,
    buf: [u8; KBUF],
}
impl KeyBound {
    const NONE: KeyBound = KeyBound { kind: 0, len: 0, buf: [0; KBUF] };
    fn of(kind: u8, k: &[u8]) -> KeyBound {
        if k.len() > KBUF {
            model_limit("range bound longer than modelled");
        }
        let mut b = KeyBound { kind, len: k.len(), buf: [0; KBUF] };
        bytes_copy(&mut b.buf, k);
        b
    }
    fn get(&self) -> &[u8] {
        &self.buf[..self.len]
    }
}

/// key sizes: general 16, ids 32, ci 40, tci 223, aci 72, akci 74, atci 255, ktci 225,
/// deleted-ids 32, deleted-naddrs 217 (+7 for d values a little over 182 bytes), two extra tables 16
#[derive(Clone, Copy)]
pub struct Tables {
    pub general: Table<16>,
    pub ids: Table<32>,
    pub ci: Table<40>,
    pub tci: Table<224>,
    pub aci: Table<72>,
    pub akci: Table<74>,
    pub atci: Table<256>,
    pub ktci: Table<226>,
    pub deleted_ids: Table<32>,
    pub deleted_naddrs: Table<224>,
    pub extra0: Table<16>,
    pub extra1: Table<16>,
}

impl Tables {
    pub const fn new() -> Self {
        Tables {
            general: Table::new(), ids: Table::new(), ci: Table::new(), tci: Table::new(), aci: Table::new(),
            akci: Table::new(), atci: Table::new(), ktci: Table::new(), deleted_ids: Table::new(),
            deleted_naddrs: Table::new(), extra0: Table::new(), extra1: Table::new(),
        }
    }
    pub fn same_as(&self, o: &Tables) -> bool {
        self.general.same_as(&o.general) && self.ids.same_as(&o.ids) && self.ci.same_as(&o.ci) && self.tci.same_as(&o.tci)
            && self.aci.same_as(&o.aci) && self.akci.same_as(&o.akci) && self.atci.same_as(&o.atci) && self.ktci.same_as(&o.ktci)
            && self.deleted_ids.same_as(&o.deleted_ids) && self.deleted_naddrs.same_as(&o.deleted_naddrs)
            && self.extra0.same_as(&o.extra0) && self.extra1.same_as(&o.extra1)
    }
}

macro_rules! on_table {
    ($tables:expr, $id:expr, |$t:ident| $body:expr) => {
        match $id {
            0 => { let $t = &$tables.general; $body }
            1 => { let $t = &$tables.ids; $body }
            2 => { let $t = &$tables.ci; $body }
            3 => { let $t = &$tables.tci; $body }
            4 => { let $t = &$tables.aci; $body }
            5 => { let $t = &$tables.akci; $body }
            6 => { let $t = &$tables.atci; $body }
            7 => { let $t = &$tables.ktci; $body }
            8 => { let $t = &$tables.deleted_ids; $body }
            9 => { let $t = &$tables.deleted_naddrs; $body }
            10 => { let $t = &$tables.extra0; $body }
            _ => { let $t = &$tables.extra1; $body }
        }
    };
}
macro_rules! on_table_mut {
    ($tables:expr, $id:expr, |$t:ident| $body:expr) => {
        match $id {
            0 => { let $t = &mut $tables.general; $body }
            1 => { let $t = &mut $tables.ids; $body }
            2 => { let $t = &mut $tables.ci; $body }
            3 => { let $t = &mut $tables.tci; $body }
            4 => { let $t = &mut $tables.aci; $body }
            5 => { let $t = &mut $tables.akci; $body }
            6 => { let $t = &mut $tables.atci; $body }
            7 => { let $t = &mut $tables.ktci; $body }
            8 => { let $t = &mut $tables.deleted_ids; $body }
            9 => { let $t = &mut $tables.deleted_naddrs; $body }
            10 => { let $t = &mut $tables.extra0; $body }
            _ => { let $t = &mut $tables.extra1; $body }
        }
    };
}
macro_rules! copy_table {
    ($dst:expr, $src:expr, $id:expr) => {
        match $id {
            0 => $dst.general = $src.general,
            1 => $dst.ids = $src.ids,
            2 => $dst.ci = $src.ci,
            3 => $dst.tci = $src.tci,
            4 => $dst.aci = $src.aci,
            5 => $dst.akci = $src.akci,
            6 => $dst.atci = $src.atci,
            7 => $dst.ktci = $src.ktci,
            8 => $dst.deleted_ids = $src.deleted_ids,
            9 => $dst.deleted_naddrs = $src.deleted_naddrs,
            10 => $dst.extra0 = $src.extra0,
            _ => $dst.extra1 = $src.extra1,
        }
    };
}

pub struct Model {
    pub committed: Tables,
    pub pending: Tables,
    pub dirty: [bool; NT],
    pub created: [bool; NT],          // committed: table exists
    pub created_pending: [bool; NT],
    pub extra_names: [[u8; 16]; 2],
    pub extra_name_len: [u8; 2],
    pub write_open: bool,
    pub commits: u64,
    /// durable commits that carried at least one effective put/delete/clear/create
    pub mutating_commits: u64,
    /// verification hook: when false, `commit()` reports success but nothing becomes durable
    /// (what a process kill just before the commit point leaves behind)
    pub commit_durable: bool,
    #[cfg(not(kani))]
    pub dir: Option<std::path::PathBuf>,
}

impl Model {
    pub const fn new() -> Self {
        Model {
            committed: Tables::new(), pending: Tables::new(), dirty: [false; NT], created: [false; NT],
            created_pending: [false; NT], extra_names: [[0; 16]; 2], extra_name_len: [0; 2], write_open: false,
            commits: 0, mutating_commits: 0, commit_durable: true,
            #[cfg(not(kani))]
            dir: None,
        }
    }
}

#[cfg(kani)]
static mut THE_MODEL: Model = Model::new();

/// Verification hook: when set, `commit()` is durable only if this gate says so.  Harnesses
/// point it at the mmap-append model's effect counter, so that a commit takes its place in the
/// single program-order sequence of persistent effects that a process kill cuts.
pub static mut EFFECT_GATE: Option<fn() -> bool> = None;

/// Under Kani every access names the static directly (a pointer loaded back from a
/// struct field makes CBMC treat each access as a byte-level update of the whole object).
/// Handle on the model state.  Natively a raw pointer to the boxed model of this environment.  Under
/// Kani a zero-sized token: a struct that carries a raw pointer is copied byte-wise when it is moved
/// out of a `Result` (heed's API returns its transactions that way, and `?` moves them again), after
/// which none of its fields - `write` in particular - is a constant for the symbolic executor any more,
/// every read through a write transaction chooses between the pending and the committed tables
/// symbolically, and nothing that follows can be evaluated (found with fold probes, DESIGN.md 8.2).
#[cfg(kani)]
#[derive(Clone, Copy)]
pub struct MPtr;
#[cfg(not(kani))]
pub type MPtr = *mut Model;

#[cfg(kani)]
#[inline(always)]
fn mref(_p: MPtr) -> &'static mut Model {
    unsafe { &mut *core::ptr::addr_of_mut!(THE_MODEL) }
}
#[cfg(not(kani))]
#[inline(always)]
fn mref(p: MPtr) -> &'static mut Model {
    unsafe { &mut *p }
}

/// Verification-side access to the model state (not part of heed's API).
pub mod verif {
    use super::*;
    #[cfg(kani)]
    pub fn model() -> &'static mut Model {
        unsafe { &mut *core::ptr::addr_of_mut!(THE_MODEL) }
    }
    pub fn committed(env: &Env) -> &Tables {
        &mref(env.m).committed
    }
    pub fn set_commit_durable(env: &Env, v: bool) {
        mref(env.m).commit_durable = v
    }
    pub fn commits(env: &Env) -> u64 {
        mref(env.m).commits
    }
    /// number of durable commits that changed a committed table (a commit of a transaction
    /// without an effective put / delete / clear / create changes nothing observable)
    pub fn mutating_commits(env: &Env) -> u64 {
        mref(env.m).mutating_commits
    }
    /// diagnostics (fold probes)
    pub fn probe_is_pending(txn: &RoTxn<'_>, id: u8) -> bool {
        let t = txn.tables_for(id) as *const Tables;
        let m = mref(txn.m);
        core::ptr::eq(t, &m.pending as *const Tables)
    }
    pub fn probe_write_flag(txn: &RoTxn<'_>) -> bool {
        txn.write != 0
    }
    pub fn probe_used0(txn: &RoTxn<'_>, id: u8) -> bool {
        let t = txn.tables_for(id);
        t.ids.used[0]
    }
    pub fn probe_len_ids(txn: &RoTxn<'_>) -> u64 {
        let t = txn.tables_for(1);
        t.ids.len()
    }
}

// ---------------------------------------------------------------------------
// codecs
// ---------------------------------------------------------------------------
pub trait BytesEncode<'a> {
    type EItem: ?Sized + 'a;
    /// encode into `out`, return the length
    fn model_encode(item: &'a Self::EItem, out: &mut [u8; KBUF]) -> usize;
}
pub trait BytesDecode<'a> {
    type DItem: 'a;
    fn model_decode(bytes: &'a [u8]) -> Self::DItem;
}

pub mod types {
    use super::*;
    #[derive(Debug, Clone, Copy)]
    pub struct Bytes;
    #[derive(Debug, Clone, Copy)]
    pub struct Unit;
    #[derive(Debug, Clone, Copy)]
    pub struct U64<O>(PhantomData<O>);

    impl<'a> BytesEncode<'a> for Bytes {
        type EItem = [u8];
        fn model_encode(item: &'a [u8], out: &mut [u8; KBUF]) -> usize {
            if item.len() > KBUF {
                // longer than anything LMDB accepts as a key (511) is refused by put; as a value it is a model limit
                return item.len();
            }
            bytes_copy(out, item);
            item.len()
        }
    }
    impl<'a> BytesDecode<'a> for Bytes {
        type DItem = &'a [u8];
        fn model_decode(bytes: &'a [u8]) -> &'a [u8] {
            bytes
        }
    }
    impl<'a> BytesEncode<'a> for Unit {
        type EItem = ();
        fn model_encode(_: &'a (), _: &mut [u8; KBUF]) -> usize {
            0
        }
    }
    impl<'a> BytesDecode<'a> for Unit {
        type DItem = ();
        fn model_decode(_: &'a [u8]) {}
    }
    impl<'a, O> BytesEncode<'a> for U64<O> {
        type EItem = u64;
        fn model_encode(item: &'a u64, out: &mut [u8; KBUF]) -> usize {
            bytes_copy(out, &item.to_ne_bytes());
            8
        }
    }
    impl<'a, O> BytesDecode<'a> for U64<O> {
        type DItem = u64;
        fn model_decode(bytes: &'a [u8]) -> u64 {
            let mut b = [0u8; 8];
            bytes_copy(&mut b, &bytes[..8]);
            u64::from_ne_bytes(b)
        }
    }
}

// ---------------------------------------------------------------------------
// environment
// ---------------------------------------------------------------------------
#[derive(Debug, Clone, Copy, PartialEq, Eq)]
pub struct EnvFlags(u32);
impl EnvFlags {
    pub const NO_TLS: EnvFlags = EnvFlags(1);
    pub const NO_SYNC: EnvFlags = EnvFlags(2);
    pub const NO_META_SYNC: EnvFlags = EnvFlags(4);
    pub const NO_SUB_DIR: EnvFlags = EnvFlags(8);
    pub const READ_ONLY: EnvFlags = EnvFlags(16);
    pub const WRITE_MAP: EnvFlags = EnvFlags(32);
    pub const MAP_ASYNC: EnvFlags = EnvFlags(64);
    pub const NO_LOCK: EnvFlags = EnvFlags(128);
    pub const NO_READ_AHEAD: EnvFlags = EnvFlags(256);
    pub const NO_MEM_INIT: EnvFlags = EnvFlags(512);
}
impl std::ops::BitOr for EnvFlags {
    type Output = EnvFlags;
    fn bitor(self, o: EnvFlags) -> EnvFlags {
        EnvFlags(self.0 | o.0)
    }
}

#[derive(Debug, Clone)]
pub struct EnvOpenOptions {
    max_dbs: u32,
    map_size: usize,
    flags: EnvFlags,
}
impl Default for EnvOpenOptions {
    fn default() -> Self {
        Self::new()
    }
}
impl EnvOpenOptions {
    pub fn new() -> EnvOpenOptions {
        EnvOpenOptions { max_dbs: 0, map_size: 0, flags: EnvFlags(0) }
    }
    pub unsafe fn flags(&mut self, flags: EnvFlags) -> &mut Self {
        self.flags = self.flags | flags;
        self
    }
    pub fn max_dbs(&mut self, n: u32) -> &mut Self {
        self.max_dbs = n;
        self
    }
    pub fn map_size(&mut self, n: usize) -> &mut Self {
        self.map_size = n;
        self
    }
    pub fn max_readers(&mut self, _n: u32) -> &mut Self {
        self
    }
    pub unsafe fn open<P: AsRef<Path>>(&self, path: P) -> Result<Env> {
        #[cfg(kani)]
        {
            // one environment; its committed state persists across open/close within a harness
            let m = core::ptr::addr_of_mut!(THE_MODEL);
            (*m).write_open = false;
            (*m).dirty = [false; NT];
            Ok(Env { m: MPtr, max_dbs: self.max_dbs })
        }
        #[cfg(not(kani))]
        {
            let mut model = Box::new(Model::new());
            let p = path.as_ref().to_owned();
            if !p.is_dir() {
                return Err(Error::BadOpenOptions);
            }
            native::load(&mut model, &p);
            model.dir = Some(p);
            Ok(Env { m: Box::into_raw(model), max_dbs: self.max_dbs })
        }
    }
}

pub struct Env {
    m: MPtr,
    max_dbs: u32,
}
unsafe impl Send for Env {}
unsafe impl Sync for Env {}
impl std::fmt::Debug for Env {
    fn fmt(&self, f: &mut std::fmt::Formatter<'_>) -> std::fmt::Result {
        f.write_str("Env(model)")
    }
}
impl Clone for Env {
    fn clone(&self) -> Env {
        Env { m: self.m, max_dbs: self.max_dbs }
    }
}

pub struct EnvClosingEvent;
impl EnvClosingEvent {
    pub fn wait(&self) {}
}

impl Env {
    pub fn read_txn(&self) -> Result<RoTxn<'_>> {
        let commits = mref(self.m).commits;
        Ok(RoTxn { m: self.m, write: 0, version: commits, _p: PhantomData })
    }
    pub fn write_txn(&self) -> Result<RwTxn<'_>> {
        {
            let m = mref(self.m);
            if m.write_open {
                // LMDB would block (single writer); a second writer on the same thread deadlocks
                model_limit("nested write transaction (would deadlock on the LMDB writer lock)");
            }
            m.write_open = true;
            m.dirty = [false; NT];
            m.created_pending = m.created;
        }
        Ok(RwTxn { txn: RoTxn { m: self.m, write: 1, version: 0, _p: PhantomData }, done: 0 })
    }
    pub fn database_options<'n>(&self) -> DatabaseOpenOptions<'_, 'n, Unspecified, Unspecified> {
        DatabaseOpenOptions { env: self, name: None, _p: PhantomData }
    }
    pub fn force_sync(&self) -> Result<()> {
        Ok(())
    }
    pub fn prepare_for_closing(self) -> EnvClosingEvent {
        EnvClosingEvent
    }
    pub fn real_disk_size(&self) -> Result<u64> {
        Ok(8192 + 4096 * mref(self.m).commits)
    }
    pub fn non_free_pages_size(&self) -> Result<u64> {
        Ok(8192)
    }
}

#[derive(Debug, Clone, Copy)]
pub struct Unspecified;

pub struct DatabaseOpenOptions<'e, 'n, KC, DC> {
    env: &'e Env,
    name: Option<&'n str>,
    _p: PhantomData<(KC, DC)>,
}

impl<'e, 'n, KC, DC> DatabaseOpenOptions<'e, 'n, KC, DC> {
    pub fn types<NKC, NDC>(self) -> DatabaseOpenOptions<'e, 'n, NKC, NDC> {
        DatabaseOpenOptions { env: self.env, name: self.name, _p: PhantomData }
    }
    pub fn name(&mut self, name: &'n str) -> &mut Self {
        self.name = Some(name);
        self
    }
    fn table_id(&self, m: &mut Model, create: bool) -> Option<u8> {
        let n = match self.name {
            None => return Some(0),
            Some(x) => x.as_bytes(),
        };
        if bytes_eq(n, b"ids") {
            return Some(1);
        }
        if bytes_eq(n, b"ci") {
            return Some(2);
        }
        if bytes_eq(n, b"tci") {
            return Some(3);
        }
        if bytes_eq(n, b"aci") {
            return Some(4);
        }
        if bytes_eq(n, b"akci") {
            return Some(5);
        }
        if bytes_eq(n, b"atci") {
            return Some(6);
        }
        if bytes_eq(n, b"ktci") {
            return Some(7);
        }
        if bytes_eq(n, b"deleted-ids") {
            return Some(8);
        }
        if bytes_eq(n, b"deleted-naddrs") {
            return Some(9);
        }
        let len = n.len();
        if len > 16 || len == 0 {
            model_limit("extra table name empty or longer than 16 bytes");
        }
        let mut j = 0;
        while j < 2 {
            if m.extra_name_len[j] as usize == len && bytes_eq(&m.extra_names[j][..len], n) {
                return Some(10 + j as u8);
            }
            j += 1;
        }
        if !create {
            return None;
        }
        j = 0;
        while j < 2 {
            if m.extra_name_len[j] == 0 {
                bytes_copy(&mut m.extra_names[j], n);
                m.extra_name_len[j] = len as u8;
                return Some(10 + j as u8);
            }
            j += 1;
        }
        model_limit("more than two extra tables")
    }
    /// Opens the table, creating it (empty) only if it does not exist yet.
    pub fn create(&self, wtxn: &mut RwTxn<'_>) -> Result<Database<KC, DC>> {
        let m = mref(wtxn.txn.m);
        let id = self.table_id(m, true).unwrap();
        // creating never clears existing contents
        m.created_pending[id as usize] = true;
        Ok(Database { id, _p: PhantomData })
    }
    pub fn open(&self, rtxn: &RoTxn<'_>) -> Result<Option<Database<KC, DC>>> {
        let m = mref(rtxn.m);
        match self.table_id(m, false) {
            Some(id) if m.created[id as usize] => Ok(Some(Database { id, _p: PhantomData })),
            _ => Ok(None),
        }
    }
}

// ---------------------------------------------------------------------------
// transactions
// ---------------------------------------------------------------------------
pub struct RoTxn<'e> {
    m: MPtr,
    /// 0 = read transaction, 1 = the write transaction.  A `u8`, not a `bool`: heed's API hands transactions
    /// out inside a `Result`, and rustc stores that `Result`'s discriminant in the niche of a `bool`
    /// field - after which the field is not a constant for the symbolic executor any more, every read
    /// through the write transaction picks pending or committed tables symbolically, and nothing that
    /// follows can be evaluated (found with fold probes, DESIGN.md 8.2).  No `bool`, reference or
    /// `NonNull` field may appear in a struct this model returns inside a `Result`.
    write: u8,
    version: u64,
    _p: PhantomData<&'e Env>,
}

impl<'e> RoTxn<'e> {
    #[inline]
    fn tables_for(&self, table: u8) -> &Tables {
        let m = mref(self.m);
        if self.write != 0 {
            if m.dirty[table as usize] { &m.pending } else { &m.committed }
        } else {
            if m.commits != self.version {
                model_limit("read transaction used after a later commit (snapshots are not modelled)");
            }
            &m.committed
        }
    }
    pub fn commit(self) -> Result<()> {
        Ok(())
    }
}

pub struct RwTxn<'e> {
    txn: RoTxn<'e>,
    done: u8,
}

impl<'e> Deref for RwTxn<'e> {
    type Target = RoTxn<'e>;
    fn deref(&self) -> &RoTxn<'e> {
        &self.txn
    }
}

impl<'e> RwTxn<'e> {
    fn tables_mut(&mut self, table: u8) -> &mut Tables {
        let m = mref(self.txn.m);
        if !m.dirty[table as usize] {
            copy_table!(m.pending, m.committed, table);
            m.dirty[table as usize] = true;
        }
        &mut m.pending
    }
    pub fn commit(mut self) -> Result<()> {
        let m = mref(self.txn.m);
        let gate_ok = match unsafe { EFFECT_GATE } {
            Some(f) => f(),
            None => true,
        };
        if m.commit_durable && gate_ok {
            let mut t: u8 = 0;
            let mut any = false;
            while (t as usize) < NT {
                if m.dirty[t as usize] {
                    copy_table!(m.committed, m.pending, t);
                    any = true;
                }
                if m.created[t as usize] != m.created_pending[t as usize] {
                    any = true;
                }
                t += 1;
            }
            m.created = m.created_pending;
            m.commits += 1;
            if any {
                m.mutating_commits += 1;
            }
            #[cfg(not(kani))]
            native::save(m);
        }
        m.dirty = [false; NT];
        m.write_open = false;
        self.done = 1;
        Ok(())
    }
    pub fn abort(mut self) {
        let m = mref(self.txn.m);
        m.dirty = [false; NT];
        m.write_open = false;
        self.done = 1;
    }
}

impl<'e> Drop for RwTxn<'e> {
    fn drop(&mut self) {
        if self.done == 0 {
            let m = mref(self.txn.m);
            m.dirty = [false; NT];
            m.write_open = false;
        }
    }
}

// ---------------------------------------------------------------------------
// database handle
// ---------------------------------------------------------------------------
pub struct Database<KC, DC> {
    id: u8,
    _p: PhantomData<(KC, DC)>,
}
impl<KC, DC> Clone for Database<KC, DC> {
    fn clone(&self) -> Self {
        *self
    }
}
impl<KC, DC> Copy for Database<KC, DC> {}
impl<KC, DC> std::fmt::Debug for Database<KC, DC> {
    fn fmt(&self, f: &mut std::fmt::Formatter<'_>) -> std::fmt::Result {
        f.write_str("Database(model)")
    }
}

impl<KC, DC> Database<KC, DC> {
    pub fn model_table_id(&self) -> u8 {
        self.id
    }

    pub fn get<'a, 'txn>(&self, txn: &'txn RoTxn<'_>, key: &'a KC::EItem) -> Result<Option<DC::DItem>>
    where
        KC: BytesEncode<'a>,
        DC: BytesDecode<'txn>,
    {
        let mut kb = [0u8; KBUF];
        let kl = KC::model_encode(key, &mut kb);
        if kl > KBUF {
            return Ok(None);
        }
        let tables: &'txn Tables = unsafe { &*(txn.tables_for(self.id) as *const Tables) };
        let v: Option<&'txn [u8]> = on_table!(tables, self.id, |t| t.get(&kb[..kl]));
        Ok(v.map(DC::model_decode))
    }

    pub fn put<'a>(&self, txn: &mut RwTxn<'_>, key: &'a KC::EItem, data: &'a DC::EItem) -> Result<()>
    where
        KC: BytesEncode<'a>,
        DC: BytesEncode<'a>,
    {
        let mut kb = [0u8; KBUF];
        let kl = KC::model_encode(key, &mut kb);
        if kl > LMDB_MAX_KEY {
            return Err(Error::Mdb(MdbError::BadValSize));
        }
        if kl > KBUF {
            model_limit("key between 257 and 511 bytes");
        }
        let mut vb = [0u8; KBUF];
        let vl = DC::model_encode(data, &mut vb);
        if vl > KBUF {
            model_limit("value longer than modelled");
        }
        let id = self.id;
        // a put that rewrites the bytes already there changes nothing: do not dirty the table
        let same = {
            let tables = txn.txn.tables_for(id);
            let cur: Option<&[u8]> = on_table!(tables, id, |t| t.get(&kb[..kl]));
            match cur {
                Some(c) => bytes_eq(c, &vb[..vl]),
                None => false,
            }
        };
        if same {
            return Ok(());
        }
        let tables = txn.tables_mut(id);
        on_table_mut!(tables, id, |t| t.put(&kb[..kl], &vb[..vl]))
    }

    pub fn delete<'a>(&self, txn: &mut RwTxn<'_>, key: &'a KC::EItem) -> Result<bool>
    where
        KC: BytesEncode<'a>,
    {
        let mut kb = [0u8; KBUF];
        let kl = KC::model_encode(key, &mut kb);
        if kl > KBUF {
            return Ok(false);
        }
        let id = self.id;
        // avoid dirtying a table for a key that is not there
        let present = {
            let tables = txn.txn.tables_for(id);
            on_table!(tables, id, |t| t.get(&kb[..kl]).is_some())
        };
        if !present {
            return Ok(false);
        }
        let tables = txn.tables_mut(id);
        Ok(on_table_mut!(tables, id, |t| t.delete(&kb[..kl])))
    }

    pub fn len(&self, txn: &RoTxn<'_>) -> Result<u64> {
        let tables = txn.tables_for(self.id);
        let mut n = on_table!(tables, self.id, |t| t.len());
        if self.id == 0 {
            // LMDB keeps one record per named database in the unnamed one
            let m = mref(txn.m);
            let created = if txn.write != 0 { &m.created_pending } else { &m.created };
            let mut i = 1;
            while i < NT {
                if created[i] {
                    n += 1;
                }
                i += 1;
            }
        }
        Ok(n)
    }

    pub fn is_empty(&self, txn: &RoTxn<'_>) -> Result<bool> {
        Ok(self.len(txn)? == 0)
    }

    pub fn clear(&self, txn: &mut RwTxn<'_>) -> Result<()> {
        let id = self.id;
        let tables = txn.tables_mut(id);
        on_table_mut!(tables, id, |t| t.used = [false; CAP]);
        Ok(())
    }

    pub fn iter<'txn>(&self, txn: &'txn RoTxn<'_>) -> Result<RoIter<'txn, KC, DC>> {
        Ok(RoRange::new(self.id, txn, KeyBound::NONE, KeyBound::NONE))
    }

    pub fn range<'a, 'txn, R>(&self, txn: &'txn RoTxn<'_>, range: &'a R) -> Result<RoRange<'txn, KC, DC>>
    where
        KC: BytesEncode<'a>,
        R: std::ops::RangeBounds<KC::EItem>,
    {
        let enc = |b: Bound<&'a KC::EItem>| -> KeyBound {
            match b {
                Bound::Unbounded => KeyBound::NONE,
                Bound::Included(k) => {
                    let mut kb = [0u8; KBUF];
                    let kl = KC::model_encode(k, &mut kb);
                    KeyBound::of(1, &kb[..kl.min(KBUF)])
                }
                Bound::Excluded(k) => {
                    let mut kb = [0u8; KBUF];
                    let kl = KC::model_encode(k, &mut kb);
                    KeyBound::of(2, &kb[..kl.min(KBUF)])
                }
            }
        };
        let lo = enc(range.start_bound());
        let hi = enc(range.end_bound());
        Ok(RoRange::new(self.id, txn, lo, hi))
    }
}

pub struct RoRange<'txn, KC, DC> {
    id: u8,
    /// which copy of the tables this scan reads, fixed when the scan starts: 1 = pending (the scan was
    /// started through the write transaction and its table is dirty), 0 = committed.  Not a reference
    /// and not a `bool` (see `RoTxn::write`): the range is handed out inside a `Result`.
    pending: u8,
    m: MPtr,
    lo: KeyBound,
    hi: KeyBound,
    after: KeyBound,
    _p: PhantomData<(&'txn (), KC, DC)>,
}
pub type RoIter<'txn, KC, DC> = RoRange<'txn, KC, DC>;

impl<'txn, KC, DC> RoRange<'txn, KC, DC> {
    fn new(id: u8, txn: &'txn RoTxn<'_>, lo: KeyBound, hi: KeyBound) -> Self {
        let m = mref(txn.m);
        let t = txn.tables_for(id) as *const Tables;
        let pending = if core::ptr::eq(t, &m.pending as *const Tables) { 1 } else { 0 };
        RoRange { id, pending, m: txn.m, lo, hi, after: KeyBound::NONE, _p: PhantomData }
    }
}

impl<'txn, KC, DC> Iterator for RoRange<'txn, KC, DC>
where
    KC: BytesDecode<'txn>,
    DC: BytesDecode<'txn>,
{
    type Item = Result<(KC::DItem, DC::DItem)>;
    fn next(&mut self) -> Option<Self::Item> {
        let m = mref(self.m);
        let tables: &'txn Tables = unsafe { &*((if self.pending != 0 { &m.pending } else { &m.committed }) as *const Tables) };
        let (lo, hi, after) = (&self.lo, &self.hi, &self.after);
        let found: Option<(&'txn [u8], &'txn [u8])> = on_table!(tables, self.id, |t| {
            match t.next_in_order(lo, hi, after) {
                Some(i) => Some((&t.key[i][..t.klen[i] as usize], &t.val[i][..t.vlen[i] as usize])),
                None => None,
            }
        });
        match found {
            Some((k, v)) => {
                self.after = KeyBound::of(2, k);
                Some(Ok((KC::model_decode(k), DC::model_decode(v))))
            }
            None => None,
        }
    }
}

// ---------------------------------------------------------------------------
// native persistence (model validation against pocket-db's own test-suite only)
// ---------------------------------------------------------------------------
#[cfg(not(kani))]
mod native {
    use super::*;
    use std::io::{Read, Write};

    fn dump_table<const K: usize>(t: &Table<K>, out: &mut Vec<u8>) {
        out.extend((t.len() as u32).to_le_bytes());
        for i in 0..CAP {
            if t.used[i] {
                out.extend(t.klen[i].to_le_bytes());
                out.extend(&t.key[i][..t.klen[i] as usize]);
                out.push(t.vlen[i]);
                out.extend(&t.val[i][..t.vlen[i] as usize]);
            }
        }
    }
    fn load_table<const K: usize>(t: &mut Table<K>, inp: &mut &[u8]) {
        let mut n4 = [0u8; 4];
        inp.read_exact(&mut n4).unwrap();
        for _ in 0..u32::from_le_bytes(n4) {
            let mut l2 = [0u8; 2];
            inp.read_exact(&mut l2).unwrap();
            let kl = u16::from_le_bytes(l2) as usize;
            let mut k = vec![0u8; kl];
            inp.read_exact(&mut k).unwrap();
            let mut vl = [0u8; 1];
            inp.read_exact(&mut vl).unwrap();
            let mut v = vec![0u8; vl[0] as usize];
            inp.read_exact(&mut v).unwrap();
            t.put(&k, &v).unwrap();
        }
    }
    pub fn save(m: &Model) {
        let dir = match &m.dir {
            Some(d) => d,
            None => return,
        };
        let mut out = Vec::new();
        out.extend(m.commits.to_le_bytes());
        for i in 0..NT {
            out.push(m.created[i] as u8);
        }
        for j in 0..2 {
            out.push(m.extra_name_len[j]);
            out.extend(&m.extra_names[j]);
        }
        let c = &m.committed;
        dump_table(&c.general, &mut out);
        dump_table(&c.ids, &mut out);
        dump_table(&c.ci, &mut out);
        dump_table(&c.tci, &mut out);
        dump_table(&c.aci, &mut out);
        dump_table(&c.akci, &mut out);
        dump_table(&c.atci, &mut out);
        dump_table(&c.ktci, &mut out);
        dump_table(&c.deleted_ids, &mut out);
        dump_table(&c.deleted_naddrs, &mut out);
        dump_table(&c.extra0, &mut out);
        dump_table(&c.extra1, &mut out);
        // the directory may have been unlinked while the environment is open (LMDB keeps working on its fds)
        if let Ok(mut f) = std::fs::File::create(dir.join("data.mdb")) {
            let _ = f.write_all(&out);
        }
        let _ = std::fs::File::create(dir.join("lock.mdb"));
    }
    pub fn load(m: &mut Model, dir: &std::path::Path) {
        let bytes = match std::fs::read(dir.join("data.mdb")) {
            Ok(b) => b,
            Err(_) => return,
        };
        let mut inp: &[u8] = &bytes;
        let mut c8 = [0u8; 8];
        inp.read_exact(&mut c8).unwrap();
        m.commits = u64::from_le_bytes(c8);
        for i in 0..NT {
            let mut b = [0u8; 1];
            inp.read_exact(&mut b).unwrap();
            m.created[i] = b[0] != 0;
        }
        for j in 0..2 {
            let mut b = [0u8; 1];
            inp.read_exact(&mut b).unwrap();
            m.extra_name_len[j] = b[0];
            inp.read_exact(&mut m.extra_names[j]).unwrap();
        }
        let c = &mut m.committed;
        load_table(&mut c.general, &mut inp);
        load_table(&mut c.ids, &mut inp);
        load_table(&mut c.ci, &mut inp);
        load_table(&mut c.tci, &mut inp);
        load_table(&mut c.aci, &mut inp);
        load_table(&mut c.akci, &mut inp);
        load_table(&mut c.atci, &mut inp);
        load_table(&mut c.ktci, &mut inp);
        load_table(&mut c.deleted_ids, &mut inp);
        load_table(&mut c.deleted_naddrs, &mut inp);
        load_table(&mut c.extra0, &mut inp);
        load_table(&mut c.extra1, &mut inp);
    }
}
