//@@ property: C11
//@@ crate: db
//@@ mount: pocket-db/src/lib.rs
//@@ also: db_lmdb_helper.rs@pocket-db/src/lmdb/mod.rs, es_helper.rs@pocket-db/src/event_store.rs
use crate::*;
include!("common_db.rs");
include!("img.rs");
include!("store_common.rs");

//@ harness: c11_store_after_address_deletion
//@ tier: quick
//@ timeout: 3000
//@ mem: 20
//@ covers: any
//@ unwindset: put_bytes=80; heed::bytes_=260; heed::Table=6; memcmp.0=70; repeat::Repeat=190; Repeat.*try_fold=190; mmap_append=200; read_hex=34; enc_tags=6; c11_store=70
//@ cbmc: --max-field-sensitivity-array-size 1100
//@ encodes: Store::store_event, Lmdb::mark_naddr_deleted, Lmdb::when_is_naddr_deleted, Addr::try_from_bytes, Store::naddr_is_deleted_asof
//@ bounds: fresh store; an accepted address deletion of (30023, author, "x") at time 4224 = 0x1080 is on record (Lmdb::mark_naddr_deleted, what handle_deletion_event does for an `a` tag); then an event of kind 30023 with d = "x" by the same author and an ARBITRARY created_at t is submitted: it is refused as deleted iff t <= 0x1080 and stored otherwise; the reported deletion time of the address is 4224 throughout
//@ outside: other kinds, d values, and longer histories
//@ assumes: heed and mmap-append models; std::fs stubs; Time::now stubbed to an arbitrary instant
store_harness!(c11_store_after_address_deletion, {
    let store = verif_store();
    // an accepted address deletion (what handle_deletion_event records for an `a` tag), time 4224
    let addr = Addr { kind: Kind::from_u16(30023), author: Pubkey::from_bytes(PK_1), d: vec![b'x'] };
    {
        let mut txn = ok!(store.indexes.write_txn());
        ok!(store.indexes.mark_naddr_deleted(&mut txn, &addr, Time::from_u64(0x1080)));
        ok!(txn.commit());
    }
    let when = ok!(store.naddr_is_deleted_asof(&addr));
    assert!(when == Some(Time::from_u64(0x1080)));
    // the covered / not covered event
    let lo: u8 = kani::any();
    let t: u64 = 0x1000 + lo as u64;
    let mut ebuf = [0u8; 200];
    let m = enc_event_img(30023, t, &ID_B, &PK_1, &SIG_0, &[&[1, 1]], b"dx", b"", &mut ebuf);
    let ev = as_event(&ebuf[..m]);
    let o = outcome(store.store_event(ev));
    kani::cover!(t == 0x1080);
    if t <= 0x1080 {
        assert!(o == Outcome::Deleted);
        assert!(!has(&store, &ID_B));
    } else {
        assert!(o == Outcome::Stored);
        assert!(has(&store, &ID_B));
    }
    let when2 = ok!(store.naddr_is_deleted_asof(&addr));
    assert!(when2 == Some(Time::from_u64(0x1080)));
    core::mem::forget(addr);
    core::mem::forget(store);
});
