//@@ property: C10
//@@ crate: db
//@@ mount: pocket-db/src/lib.rs
//@@ also: db_lmdb_helper.rs@pocket-db/src/lmdb/mod.rs, es_helper.rs@pocket-db/src/event_store.rs
use crate::*;
include!("common_db.rs");
include!("img.rs");
include!("store_common.rs");

//@ harness: c10_foreign_delete_by_id
//@ tier: quick
//@ timeout: 3000
//@ mem: 20
//@ covers: none
//@ unwindset: put_bytes=80; heed::bytes_=260; heed::Table=6; memcmp.0=70; repeat::Repeat=190; Repeat.*try_fold=190; mmap_append=200; read_hex=34; enc_tags=6; c10_foreign=40
//@ cbmc: --max-field-sensitivity-array-size 800
//@ encodes: Store::store_event, Store::handle_deletion_event, Id::read_hex, Store::get_event_by_id, Lmdb::mark_deleted, Store::event_is_deleted
//@ bounds: fresh store; a victim event (kind 1) by author B with an arbitrary created_at is in the store (seeded through EventStore::store_event + Lmdb::index); then a deletion request (kind 5) by a DIFFERENT author A names the victim by id in an e tag, with an arbitrary created_at: the request is refused as an invalid delete, is itself not retrievable, the victim is still retrievable byte-identical by id, and the victim's id carries no deletion marker
//@ outside: requests with several tags (thorough), address tags, arbitrary surrounding history
store_harness!(c10_foreign_delete_by_id, {
    let store = verif_store();
    let tv: u64 = kani::any();
    let mut vb = [0u8; 160];
    let nv = enc_event_img(1, tv, &ID_B, &PK_2, &SIG_0, &[], b"", b"v", &mut vb);
    let _ = seed_stored(&store, as_event(&vb[..nv]));
    // ["e", hex(ID_B = 0xB2 * 32)]
    let mut pool = [0u8; 65];
    pool[0] = b'e';
    let mut i = 0;
    while i < 32 {
        pool[1 + 2 * i] = b'b';
        pool[2 + 2 * i] = b'2';
        i += 1;
    }
    let td: u64 = kani::any();
    let mut db = [0u8; 240];
    let nd = enc_event_img(5, td, &ID_A, &PK_1, &SIG_0, &[&[1, 64]], &pool, b"", &mut db);
    let o = outcome(store.store_event(as_event(&db[..nd])));
    assert!(o == Outcome::InvalidDelete);
    assert!(!has(&store, &ID_A));
    assert!(has(&store, &ID_B));
    let still = some!(ok!(store.get_event_by_id(Id::from_bytes(ID_B))));
    assert!(still.as_bytes().len() == nv && still.created_at().as_u64() == tv && still.pubkey() == Pubkey::from_bytes(PK_2));
    assert!(!ok!(store.event_is_deleted(Id::from_bytes(ID_B))));
    core::mem::forget(store);
});
