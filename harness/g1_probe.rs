//@@ property: G1
//@@ crate: db
//@@ mount: pocket-db/src/lib.rs
//@@ also: db_lmdb_helper.rs@pocket-db/src/lmdb/mod.rs, es_helper.rs@pocket-db/src/event_store.rs
use crate::*;
include!("common_db.rs");
include!("img.rs");
include!("texts.rs");

//@ harness: g1_store_concrete
//@ tier: quick
//@ timeout: 1800
//@ mem: 24
//@ covers: none
#[kani::proof]
#[kani::unwind(260)]
#[kani::stub(core::panic::Location::caller, stub_caller)]
#[kani::stub(std::hash::RandomState::new, stub_random_state)]
#[kani::stub(<std::io::Error as std::fmt::Display>::fmt, stub_io_error_fmt)]
#[kani::stub(<std::io::Error as std::string::ToString>::to_string, stub_io_to_string)]
#[kani::stub(std::fs::File::set_len, stub_set_len)]
#[kani::stub(std::fs::OpenOptions::open, stub_open)]
#[kani::stub(std::fs::File::metadata, stub_metadata)]
#[kani::stub(std::fs::Metadata::len, stub_metadata_len)]
#[kani::stub(std::fs::create_dir, stub_create_dir)]
fn g1_store_concrete() {
    let store = Store::new("/s", vec![]);
    assert!(store.is_ok());
    let store = store.unwrap();
    let mut buf = [0u8; 200];
    let n = enc_event_img(1, 1000, &ID_BIN, &PK_BIN, &SIG_BIN, &[&[1, 2]], b"eab", b"hi", &mut buf);
    let ev = unsafe { Event::delineate(&buf[..n]) }.unwrap();
    let r = store.store_event(ev);
    assert!(r.is_ok());
    let off = r.unwrap();
    let got = store.get_event_by_id(Id::from_bytes(ID_BIN));
    assert!(got.is_ok());
    let got = got.unwrap();
    assert!(got.is_some());
    assert!(got.unwrap().as_bytes().len() == n);
    assert!(off == 8);
    core::mem::forget(store);
}

//@ harness: g1_evstore_only g1_lmdb_only g1_new_only
//@ tier: quick
//@ timeout: 600
//@ mem: 24
//@ covers: none
#[kani::proof]
#[kani::unwind(260)]
#[kani::stub(core::panic::Location::caller, stub_caller)]
#[kani::stub(std::hash::RandomState::new, stub_random_state)]
#[kani::stub(<std::io::Error as std::fmt::Display>::fmt, stub_io_error_fmt)]
#[kani::stub(<std::io::Error as std::string::ToString>::to_string, stub_io_to_string)]
#[kani::stub(std::fs::File::set_len, stub_set_len)]
#[kani::stub(std::fs::OpenOptions::open, stub_open)]
#[kani::stub(std::fs::File::metadata, stub_metadata)]
#[kani::stub(std::fs::Metadata::len, stub_metadata_len)]
#[kani::stub(std::fs::create_dir, stub_create_dir)]
fn g1_evstore_only() {
    let es = crate::event_store::EventStore::new("/s/event.map");
    assert!(es.is_ok());
    core::mem::forget(es);
}
#[kani::proof]
#[kani::unwind(260)]
#[kani::stub(core::panic::Location::caller, stub_caller)]
#[kani::stub(std::hash::RandomState::new, stub_random_state)]
#[kani::stub(<std::io::Error as std::fmt::Display>::fmt, stub_io_error_fmt)]
#[kani::stub(<std::io::Error as std::string::ToString>::to_string, stub_io_to_string)]
#[kani::stub(std::fs::File::set_len, stub_set_len)]
#[kani::stub(std::fs::OpenOptions::open, stub_open)]
#[kani::stub(std::fs::File::metadata, stub_metadata)]
#[kani::stub(std::fs::Metadata::len, stub_metadata_len)]
#[kani::stub(std::fs::create_dir, stub_create_dir)]
fn g1_lmdb_only() {
    let l = crate::lmdb::Lmdb::new("/s/lmdb", &[]);
    assert!(l.is_ok());
    core::mem::forget(l);
}
#[kani::proof]
#[kani::unwind(260)]
#[kani::stub(core::panic::Location::caller, stub_caller)]
#[kani::stub(std::hash::RandomState::new, stub_random_state)]
#[kani::stub(<std::io::Error as std::fmt::Display>::fmt, stub_io_error_fmt)]
#[kani::stub(<std::io::Error as std::string::ToString>::to_string, stub_io_to_string)]
#[kani::stub(std::fs::File::set_len, stub_set_len)]
#[kani::stub(std::fs::OpenOptions::open, stub_open)]
#[kani::stub(std::fs::File::metadata, stub_metadata)]
#[kani::stub(std::fs::Metadata::len, stub_metadata_len)]
#[kani::stub(std::fs::create_dir, stub_create_dir)]
fn g1_new_only() {
    let store = Store::new("/s", vec![]);
    assert!(store.is_ok());
    core::mem::forget(store);
}

//@ harness: g1_h1 g1_h2 g1_h3
//@ tier: quick
//@ timeout: 300
//@ mem: 24
//@ covers: none
#[kani::proof]
#[kani::unwind(260)]
#[kani::stub(core::panic::Location::caller, stub_caller)]
#[kani::stub(std::hash::RandomState::new, stub_random_state)]
fn g1_h1() {
    let env = unsafe { heed::EnvOpenOptions::new().open("/x") }.unwrap();
    let txn = env.write_txn().unwrap();
    txn.commit().unwrap();
}
#[kani::proof]
#[kani::unwind(260)]
#[kani::stub(core::panic::Location::caller, stub_caller)]
#[kani::stub(std::hash::RandomState::new, stub_random_state)]
fn g1_h2() {
    let env = unsafe { heed::EnvOpenOptions::new().open("/x") }.unwrap();
    let mut txn = env.write_txn().unwrap();
    let db: heed::Database<heed::types::Bytes, heed::types::U64<heed::byteorder::NativeEndian>> =
        env.database_options().types().name("ids").create(&mut txn).unwrap();
    txn.commit().unwrap();
}
#[kani::proof]
#[kani::unwind(260)]
#[kani::stub(core::panic::Location::caller, stub_caller)]
#[kani::stub(std::hash::RandomState::new, stub_random_state)]
fn g1_h3() {
    let env = unsafe { heed::EnvOpenOptions::new().open("/x") }.unwrap();
    let mut txn = env.write_txn().unwrap();
    let db: heed::Database<heed::types::Bytes, heed::types::U64<heed::byteorder::NativeEndian>> =
        env.database_options().types().name("ids").create(&mut txn).unwrap();
    db.put(&mut txn, &[1u8, 2, 3][..], &7u64).unwrap();
    txn.commit().unwrap();
    let r = env.read_txn().unwrap();
    assert!(db.get(&r, &[1u8, 2, 3][..]).unwrap() == Some(7));
}

//@ harness: g1_l1 g1_l2
//@ tier: quick
//@ timeout: 300
//@ mem: 24
//@ covers: none
#[kani::proof]
#[kani::unwind(260)]
#[kani::stub(core::panic::Location::caller, stub_caller)]
#[kani::stub(std::hash::RandomState::new, stub_random_state)]
fn g1_l1() {
    let l = crate::lmdb::Lmdb::new("/s/lmdb", &[]);
    assert!(l.is_ok());
    core::mem::forget(l);
}
#[kani::proof]
#[kani::unwind(260)]
#[kani::stub(core::panic::Location::caller, stub_caller)]
#[kani::stub(std::hash::RandomState::new, stub_random_state)]
fn g1_l2() {
    // Lmdb::new's body without the HashMap
    let mut builder = heed::EnvOpenOptions::new();
    unsafe {
        let _ = builder.flags(heed::EnvFlags::NO_TLS | heed::EnvFlags::NO_SYNC | heed::EnvFlags::NO_META_SYNC);
    }
    let _ = builder.max_dbs(10).map_size(1048576 * 1024 * 24);
    let env = unsafe { builder.open("/x") }.unwrap();
    let mut txn = env.write_txn().unwrap();
    let a: heed::Database<heed::types::Bytes, heed::types::Bytes> = env.database_options().types().create(&mut txn).unwrap();
    let b: heed::Database<heed::types::Bytes, heed::types::U64<heed::byteorder::NativeEndian>> =
        env.database_options().types().name("ids").create(&mut txn).unwrap();
    let c: heed::Database<heed::types::Bytes, heed::types::U64<heed::byteorder::NativeEndian>> =
        env.database_options().types().name("ci").create(&mut txn).unwrap();
    let d: heed::Database<heed::types::Bytes, heed::types::U64<heed::byteorder::NativeEndian>> =
        env.database_options().types().name("deleted-naddrs").create(&mut txn).unwrap();
    txn.commit().unwrap();
}

//@ harness: g1_l3
//@ tier: quick
//@ timeout: 300
//@ mem: 24
//@ covers: none
#[kani::proof]
#[kani::unwind(260)]
#[kani::stub(core::panic::Location::caller, stub_caller)]
#[kani::stub(std::hash::RandomState::new, stub_random_state)]
fn g1_l3() {
    let l = crate::lmdb::Lmdb::new("/s/lmdb", &[]).unwrap();
    let txn = l.read_txn().unwrap();
    let r = l.get_offset_by_id(&txn, Id::from_bytes(ID_BIN));
    assert!(r.unwrap().is_none());
    core::mem::forget(l);
}

fn verif_store() -> Store {
    let events = crate::event_store::verif_es_helper::fresh_event_store();
    let indexes = crate::lmdb::verif_db_lmdb_helper::verif_lmdb();
    Store { events, indexes, dir: std::path::PathBuf::new(), extra_table_names: Vec::new() }
}

//@ harness: g1_s1 g1_s2
//@ tier: quick
//@ timeout: 900
//@ mem: 24
//@ covers: none
//@ unwindset: put_bytes=70; heed::bytes_=260; heed::Table=6; memcmp.0=40; repeat::Repeat=190; Repeat.*try_fold=190; mmap_append=200
//@ cbmc: --max-field-sensitivity-array-size 800
#[kani::proof]
#[kani::unwind(14)]
#[kani::stub(core::panic::Location::caller, stub_caller)]
#[kani::stub(std::hash::RandomState::new, stub_random_state)]
#[kani::stub(<std::io::Error as std::fmt::Display>::fmt, stub_io_error_fmt)]
#[kani::stub(<std::io::Error as std::string::ToString>::to_string, stub_io_to_string)]
#[kani::stub(std::fs::File::set_len, stub_set_len)]
#[kani::stub(std::fs::OpenOptions::open, stub_open)]
#[kani::stub(std::fs::File::metadata, stub_metadata)]
#[kani::stub(std::fs::Metadata::len, stub_metadata_len)]
fn g1_s1() {
    let store = verif_store();
    let got = ok!(store.get_event_by_id(Id::from_bytes(ID_BIN)));
    assert!(got.is_none());
    core::mem::forget(store);
}
#[kani::proof]
#[kani::unwind(14)]
#[kani::stub(core::panic::Location::caller, stub_caller)]
#[kani::stub(std::hash::RandomState::new, stub_random_state)]
#[kani::stub(<std::io::Error as std::fmt::Display>::fmt, stub_io_error_fmt)]
#[kani::stub(<std::io::Error as std::string::ToString>::to_string, stub_io_to_string)]
#[kani::stub(std::fs::File::set_len, stub_set_len)]
#[kani::stub(std::fs::OpenOptions::open, stub_open)]
#[kani::stub(std::fs::File::metadata, stub_metadata)]
#[kani::stub(std::fs::Metadata::len, stub_metadata_len)]
fn g1_s2() {
    let store = verif_store();
    let mut buf = [0u8; 200];
    let n = enc_event_img(1, 1000, &ID_BIN, &PK_BIN, &SIG_BIN, &[&[1, 2]], b"eab", b"hi", &mut buf);
    let sl: &[u8] = &buf[..n];
    let ev: &Event = unsafe { &*(sl as *const [u8] as *const Event) };
    let off = ok!(store.store_event(ev));
    let got = some!(ok!(store.get_event_by_id(Id::from_bytes(ID_BIN))));
    assert!(got.as_bytes().len() == n);
    assert!(off == 8);
    core::mem::forget(store);
}
