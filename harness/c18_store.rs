//@@ property: C18
//@@ crate: db
//@@ mount: pocket-db/src/lib.rs
//@@ also: db_lmdb_helper.rs@pocket-db/src/lmdb/mod.rs, es_helper.rs@pocket-db/src/event_store.rs
use crate::*;
include!("common_db.rs");
include!("img.rs");
include!("store_common.rs");

//@ harness: c18_ephemeral_kinds
//@ tier: quick
//@ timeout: 3000
//@ mem: 20
//@ covers: any
//@ unwindset: put_bytes=80; heed::bytes_=260; heed::Table=6; memcmp.0=70; repeat::Repeat=190; Repeat.*try_fold=190; mmap_append=200; read_hex=34; enc_tags=6
//@ cbmc: --max-field-sensitivity-array-size 800
//@ encodes: Store::store_event (ephemeral branch), Kind::is_ephemeral, Store::has_event
//@ bounds: fresh store; one event without tags whose kind is ARBITRARY in 19990..=30010 (both boundaries of the ephemeral range) but not replaceable: the store succeeds, and the event is retrievable by id iff its kind is outside 20000..=29999; no deletion marker appears
//@ outside: vanish (two query sweeps plus removals: out of budget), removal among several events (thorough)
store_harness!(c18_ephemeral_kinds, {
    let store = verif_store();
    let k: u16 = kani::any();
    kani::assume(k >= 19990 && k <= 30010);
    kani::assume(k >= 20000); // 10000..19999 are replaceable: a different path (C09)
    let mut b = [0u8; 160];
    let n = enc_event_img(k, 77, &ID_A, &PK_1, &SIG_0, &[], b"", b"", &mut b);
    let o = outcome(store.store_event(as_event(&b[..n])));
    assert!(o == Outcome::Stored);
    kani::cover!(k == 30000);
    let eph = k >= 20000 && k <= 29999;
    assert!(has(&store, &ID_A) == !eph);
    assert!(!ok!(store.event_is_deleted(Id::from_bytes(ID_A))));
    core::mem::forget(store);
});
