#!/bin/bash
# usage: try_seed.sh <seed-name> <PROPERTY> [check args...]
# Runs a check against the seeded change.  Works on a throw-away copy of /repo (so that /repo
# itself stays clean and several seeds can be tried in parallel); the copy is removed afterwards.
# The documented procedure on /repo itself is equivalent:
#   git -C /repo apply seeded/<seed>/patch.diff && ./check <P> ...; git -C /repo checkout -- .
S=/verif/seeded/$1; P=$2; shift 2
R=/var/tmp/pv/seedrepo-$(basename $S)-$$
rm -rf $R; mkdir -p $R; rsync -a --exclude target --exclude .git /repo/ $R/
( cd $R && git init -q && git apply $S/patch.diff ) || { echo "cannot apply $S"; rm -rf $R; exit 2; }
cd /verif
VERIF_REPO=$R ./check $P --no-evidence "$@" > $S/detection.log 2>&1; RC=$?
rm -rf $R
echo "SEED $(basename $S) check=$P $* exit=$RC $(grep -c '^VIOLATION' $S/detection.log) violation line(s)" | tee -a $S/detection.log
