//@@ property: C17
//@@ crate: db
//@@ mount: pocket-db/src/lmdb/mod.rs
//@@ also: db_lmdb_helper.rs@pocket-db/src/lmdb/mod.rs
// index() / deindex() / deindex_id() as mirror images, at the Lmdb level: the event is a local
// byte image (no event map, no lookups), the three calls run in one write transaction and the
// entry counts are read from the tables directly.  This is the cheapest form that still runs
// the real key builders and the real tag walk of both functions on arbitrary tag bytes.
use super::*;
include!("common_db.rs");
include!("img.rs");

fn lmdb() -> Lmdb {
    super::verif_db_lmdb_helper::verif_lmdb()
}

fn as_event(bytes: &[u8]) -> &Event {
    unsafe { &*(bytes as *const [u8] as *const Event) }
}

//@ harness: c17_lmdb_mirror_letter c17_lmdb_mirror_repeated_tag
//@ tier: quick
//@ timeout: 700
//@ mem: 26
//@ covers: any
//@ unwindset: put_bytes=80; heed::bytes_=260; heed::Table=6; memcmp.0=80; repeat::Repeat=190; Repeat.*try_fold=190; enc_tags=8; c17_lmdb=12; mirror=12
//@ cbmc: --max-field-sensitivity-array-size 1100
//@ encodes: Lmdb::index, Lmdb::deindex, Lmdb::deindex_id, key_ci_index, key_ac_index, key_akc_index, key_tc_index, key_atc_index, key_ktc_index, Event::tags, Tags::iter
//@ bounds: one event (fixed id and author, kind 7, created_at 4105); _letter: the single tag [L ab] with L an ARBITRARY one-byte tag name (either case, digits, any byte); _repeated_tag: the tags [e ab] [e ab] (the same indexable tag twice: the second put overwrites, the second delete finds nothing). After Lmdb::index: the id, time, author and author-kind tables hold 1 entry each and the three tag tables hold equally many (the repeated tag shares its key); after Lmdb::deindex and Lmdb::deindex_id in the same transaction every table is empty again
//@ outside: several events; values longer than 2 bytes; the Store-level wrappers (remove_event etc.: thorough tier)
//@ assumes: heed model (put/delete/len inside one write transaction)
fn mirror(sym_time: bool, sym_kind: bool, sym_value: bool, sym_letter: bool, shape: u8, fixed_letter: u8) {
    let l = lmdb();
    let lo: u8 = if sym_time { kani::any() } else { 9 };
    let t: u64 = 0x1000 + lo as u64;
    let kind: u16 = if sym_kind { kani::any() } else { 7 };
    let v: [u8; 2] = if sym_value { kani::any() } else { [b'a', b'b'] };
    let letter: u8 = if sym_letter { kani::any() } else { fixed_letter };
    let pool = [letter, v[0], v[1], letter, v[0], v[1], b'q'];
    let mut b = [0u8; 220];
    let id = [0xC3u8; 32];
    let pk = [0x22u8; 32];
    let sig = [0u8; 64];
    // shape 0: [L v][L v][q][]   1: [L v]   2: [L v][L v]
    let n = match shape {
        0 => enc_event_img(kind, t, &id, &pk, &sig, &[&[1, 2], &[1, 2], &[1], &[]], &pool, b"", &mut b),
        1 => enc_event_img(kind, t, &id, &pk, &sig, &[&[1, 2]], &pool, b"", &mut b),
        _ => enc_event_img(kind, t, &id, &pk, &sig, &[&[1, 2], &[1, 2]], &pool, b"", &mut b),
    };
    let ev = as_event(&b[..n]);
    let mut txn = ok!(l.write_txn());
    ok!(l.index(&mut txn, ev, 8));
    let (ni, nci, nac, nakc) = (ok!(l.i_index.len(&txn)), ok!(l.ci_index.len(&txn)), ok!(l.ac_index.len(&txn)), ok!(l.akc_index.len(&txn)));
    assert!(ni == 1 && nci == 1 && nac == 1 && nakc == 1);
    let (ntc, natc, nktc) = (ok!(l.tc_index.len(&txn)), ok!(l.atc_index.len(&txn)), ok!(l.ktc_index.len(&txn)));
    assert!(ntc == natc && natc == nktc && ntc <= 1);
    kani::cover!(ntc == 1);
    kani::cover!(ntc == 0); // a name index() does not accept: still a reachability witness
    ok!(l.deindex(&mut txn, ev));
    ok!(l.deindex_id(&mut txn, Id::from_bytes(id)));
    assert!(ok!(l.i_index.len(&txn)) == 0, "id index entry leaked");
    assert!(ok!(l.ci_index.len(&txn)) == 0, "time index entry leaked");
    assert!(ok!(l.ac_index.len(&txn)) == 0, "author index entry leaked");
    assert!(ok!(l.akc_index.len(&txn)) == 0, "author-kind index entry leaked");
    assert!(ok!(l.tc_index.len(&txn)) == 0, "tag index entry leaked");
    assert!(ok!(l.atc_index.len(&txn)) == 0, "author-tag index entry leaked");
    assert!(ok!(l.ktc_index.len(&txn)) == 0, "kind-tag index entry leaked");
    core::mem::forget(txn);
    core::mem::forget(l);
}

macro_rules! mirror_harness {
    ($name:ident, $t:expr, $k:expr, $v:expr, $l:expr, $shape:expr) => {
        mirror_harness!($name, $t, $k, $v, $l, $shape, b'e');
    };
    ($name:ident, $t:expr, $k:expr, $v:expr, $l:expr, $shape:expr, $fixed:expr) => {
        #[kani::proof]
        #[kani::unwind(14)]
        #[kani::stub(core::panic::Location::caller, stub_caller)]
        #[kani::stub(std::hash::RandomState::new, stub_random_state)]
        fn $name() {
            mirror($t, $k, $v, $l, $shape, $fixed);
        }
    };
}
mirror_harness!(c17_lmdb_mirror_letter, false, false, false, true, 1);
mirror_harness!(c17_lmdb_mirror_repeated_tag, false, false, false, false, 2);

//@ harness: c17_lmdb_mirror_upper c17_lmdb_mirror_digit
//@ tier: quick
//@ timeout: 700
//@ mem: 20
//@ covers: any
//@ unwindset: put_bytes=80; heed::bytes_=260; heed::Table=6; memcmp.0=80; repeat::Repeat=190; Repeat.*try_fold=190; enc_tags=8; c17_lmdb=12; mirror=12
//@ cbmc: --max-field-sensitivity-array-size 1100
//@ encodes: Lmdb::index, Lmdb::deindex, Lmdb::deindex_id, key_ci_index, key_ac_index, key_akc_index, key_tc_index, key_atc_index, key_ktc_index, Event::tags, Tags::iter
//@ bounds: one event (fixed id and author, kind 7, created_at 4105) with the single tag [E ab] (_upper: an UPPER-CASE one-letter name, which index() accepts) resp. [7 ab] (_digit: a one-byte name that is not a letter): constant twins of c17_lmdb_mirror_letter at the two classes of name where index() and deindex() could disagree, cheap enough to stay decidable when the two sides diverge (the arbitrary-letter harness ran out of memory on such a change). Same assertions: the three tag tables hold equally many entries after index, and every table is empty after deindex + deindex_id
//@ outside: several events; values longer than 2 bytes; other letters (c17_lmdb_mirror_letter)
//@ assumes: heed model (put/delete/len inside one write transaction)
mirror_harness!(c17_lmdb_mirror_upper, false, false, false, false, 1, b'E');
mirror_harness!(c17_lmdb_mirror_digit, false, false, false, false, 1, b'7');

//@ harness: c17_lmdb_mirror_mixed
//@ tier: thorough
//@ timeout: 1500
//@ mem: 20
//@ covers: any
//@ unwindset: put_bytes=80; heed::bytes_=260; heed::Table=6; memcmp.0=80; repeat::Repeat=190; Repeat.*try_fold=190; enc_tags=8; c17_lmdb=12; mirror=12
//@ cbmc: --max-field-sensitivity-array-size 1100
//@ encodes: Lmdb::index, Lmdb::deindex, Lmdb::deindex_id and the six key builders
//@ bounds: constant twin of c17_lmdb_index_deindex_mirror: the four tags [e ab] [e ab] [q] [] (an indexable tag, the same tag repeated, a name WITHOUT value and an EMPTY tag) on one event with constant fields: the tag tables hold one entry each after index, every table is empty after deindex + deindex_id
//@ outside: arbitrary field values (c17_lmdb_index_deindex_mirror, which has not finished so far)
//@ assumes: heed model (put/delete/len inside one write transaction)
mirror_harness!(c17_lmdb_mirror_mixed, false, false, false, false, 0);

//@ harness: c17_lmdb_index_deindex_mirror
//@ tier: thorough
//@ timeout: 3000
//@ mem: 20
//@ covers: any
//@ unwindset: put_bytes=80; heed::bytes_=260; heed::Table=6; memcmp.0=80; repeat::Repeat=190; Repeat.*try_fold=190; enc_tags=8; c17_lmdb=12; mirror=12
//@ cbmc: --max-field-sensitivity-array-size 1100
//@ encodes: Lmdb::index, Lmdb::deindex, Lmdb::deindex_id and the six key builders
//@ bounds: the same with kind, created_at byte, value and letter all arbitrary at once (did not finish in 700 s)
mirror_harness!(c17_lmdb_index_deindex_mirror, true, true, true, true, 0);
