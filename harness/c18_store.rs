//@@ property: C18
//@@ crate: db
//@@ mount: pocket-db/src/lib.rs
//@@ also: db_lmdb_helper.rs@pocket-db/src/lmdb/mod.rs, es_helper.rs@pocket-db/src/event_store.rs
use crate::*;
include!("common_db.rs");
include!("img.rs");
include!("store_common.rs");

//@ harness: c18_ephemeral_kinds
//@ tier: quick
//@ timeout: 3000
//@ mem: 20
//@ covers: any
//@ unwindset: put_bytes=80; heed::bytes_=260; heed::Table=6; memcmp.0=70; repeat::Repeat=190; Repeat.*try_fold=190; mmap_append=200; read_hex=34; enc_tags=6
//@ cbmc: --max-field-sensitivity-array-size 1100
//@ encodes: Store::store_event (ephemeral branch), Kind::is_ephemeral, Store::has_event
//@ bounds: fresh store; one event without tags whose kind is ARBITRARY in 19990..=30010 (both boundaries of the ephemeral range) but not replaceable: the store succeeds, and the event is retrievable by id iff its kind is outside 20000..=29999; no deletion marker appears
//@ outside: vanish (two query sweeps plus removals: out of budget), removal among several events (thorough)
store_harness!(c18_ephemeral_kinds, {
    let store = verif_store();
    let k: u16 = kani::any();
    kani::assume(k >= 19990 && k <= 30010);
    kani::assume(k >= 20000); // 10000..19999 are replaceable: a different path (C09)
    let mut b = [0u8; 160];
    let n = enc_event_img(k, 77, &ID_A, &PK_1, &SIG_0, &[], b"", b"", &mut b);
    let o = outcome(store.store_event(as_event(&b[..n])));
    assert!(o == Outcome::Stored);
    kani::cover!(k == 30000);
    let eph = k >= 20000 && k <= 29999;
    assert!(has(&store, &ID_A) == !eph);
    assert!(!ok!(store.event_is_deleted(Id::from_bytes(ID_A))));
    core::mem::forget(store);
});

//@ harness: c18_ephemeral_not_indexed
//@ tier: quick
//@ timeout: 700
//@ mem: 20
//@ covers: any
//@ unwindset: put_bytes=80; heed::bytes_=260; heed::Table=6; memcmp.0=70; repeat::Repeat=190; Repeat.*try_fold=190; mmap_append=200; read_hex=34; enc_tags=6
//@ cbmc: --max-field-sensitivity-array-size 1100
//@ encodes: Store::store_event (ephemeral branch: appended, not indexed), Kind::is_ephemeral, Store::stats, Store::has_event
//@ bounds: fresh store; one event (no tags, one content byte) whose kind is ARBITRARY in 20000..=29999 and whose created_at is arbitrary in 4096..=4351: the complete store_event succeeds, the event is not retrievable by id, and the statistics count 0 entries in every index table (id, time, author, author-kind, tag indexes) and no markers - so no query path can reach it either (with an indexable tag the same harness did not finish in 700 s)
//@ outside: vanish; removal among several events (thorough)
store_harness!(c18_ephemeral_not_indexed, {
    let store = verif_store();
    let k: u16 = kani::any();
    kani::assume(k >= 20000 && k <= 29999);
    let lo: u8 = kani::any();
    let t: u64 = 0x1000 + lo as u64;
    let mut b = [0u8; 170];
    let n = enc_event_img(k, t, &ID_A, &PK_1, &SIG_0, &[], b"", b"x", &mut b);
    let o = outcome(store.store_event(as_event(&b[..n])));
    kani::cover!(k == 29999);
    assert!(o == Outcome::Stored);
    assert!(!has(&store, &ID_A), "an ephemeral event is retrievable by id");
    let s = ok!(store.stats());
    let ix = &s.index_stats;
    assert!(ix.i_index_entries == 0 && ix.ci_index_entries == 0 && ix.ac_index_entries == 0 && ix.akc_index_entries == 0, "an ephemeral event was indexed");
    assert!(ix.tc_index_entries == 0 && ix.atc_index_entries == 0 && ix.ktc_index_entries == 0, "an ephemeral event's tag was indexed");
    assert!(ix.deleted_index_entries == 0 && ix.deleted_naddr_index_entries == 0);
    core::mem::forget(s);
    core::mem::forget(store);
});

//@ harness: c18_remove_absent_no_marker
//@ tier: thorough
//@ timeout: 3000
//@ mem: 16
//@ covers: none
//@ unwindset: put_bytes=80; heed::bytes_=260; heed::Table=6; memcmp.0=70; repeat::Repeat=190; Repeat.*try_fold=190; mmap_append=200; read_hex=34; enc_tags=6
//@ cbmc: --max-field-sensitivity-array-size 1100
//@ encodes: Store::remove_event, Store::remove_by_id (absent id), Store::event_is_deleted, Store::has_event
//@ bounds: fresh store; remove_event of an ARBITRARY id (first and last byte arbitrary) that is not stored succeeds, makes no durable change and leaves NO deletion marker on that id - explicit removal never marks an id as deleted, so a later submission is not blocked by it
//@ outside: removal of a stored event and removal among several events (thorough: c18_remove_exactly_one; dereferences stored events, DESIGN.md 8.2); the later submission itself (thorough: c18_remove_absent_then_store); vanish
store_harness!(c18_remove_absent_no_marker, {
    let store = verif_store();
    let env = crate::lmdb::verif_db_lmdb_helper::env_of(&store.indexes);
    let commits = heed::verif::mutating_commits(env);
    let mut id = ID_A;
    id[0] = kani::any();
    id[31] = kani::any();
    ok!(store.remove_event(Id::from_bytes(id)));
    assert!(heed::verif::mutating_commits(env) == commits);
    assert!(!ok!(store.event_is_deleted(Id::from_bytes(id))), "explicit removal left a deletion marker");
    assert!(!ok!(store.has_event(Id::from_bytes(id))));
    core::mem::forget(store);
});

//@ harness: c18_remove_absent_then_store
//@ tier: thorough
//@ timeout: 3000
//@ mem: 20
//@ covers: none
//@ unwindset: put_bytes=80; heed::bytes_=260; heed::Table=6; memcmp.0=70; repeat::Repeat=190; Repeat.*try_fold=190; mmap_append=200; read_hex=34; enc_tags=6
//@ cbmc: --max-field-sensitivity-array-size 1100
//@ encodes: Store::remove_event, Store::remove_by_id (absent id), Store::event_is_deleted, Store::store_event
//@ bounds: fresh store; remove_event of an id that is not stored succeeds, makes no durable change and leaves NO deletion marker on that id; an event with that id (kind 1, created_at arbitrary in 4096..=4351, one tag) is then accepted by a complete store_event and is retrievable - explicit removal never blocks a later submission
//@ outside: removal of a stored event and removal among several events (thorough: c18_remove_exactly_one; dereferences stored events, DESIGN.md 8.2); vanish
store_harness!(c18_remove_absent_then_store, {
    let store = verif_store();
    let env = crate::lmdb::verif_db_lmdb_helper::env_of(&store.indexes);
    let commits = heed::verif::mutating_commits(env);
    ok!(store.remove_event(Id::from_bytes(ID_A)));
    assert!(heed::verif::mutating_commits(env) == commits);
    assert!(!ok!(store.event_is_deleted(Id::from_bytes(ID_A))), "explicit removal left a deletion marker");
    let lo: u8 = kani::any();
    let t: u64 = 0x1000 + lo as u64;
    let mut b = [0u8; 170];
    let n = enc_event_img(1, t, &ID_A, &PK_1, &SIG_0, &[&[1, 2]], b"eab", b"", &mut b);
    let o = outcome(store.store_event(as_event(&b[..n])));
    assert!(o == Outcome::Stored, "an event was refused after its id had been explicitly removed");
    assert!(has(&store, &ID_A));
    assert!(!ok!(store.event_is_deleted(Id::from_bytes(ID_A))));
    core::mem::forget(store);
});

//@ harness: c18_remove_exactly_one
//@ tier: thorough
//@ timeout: 2400
//@ mem: 16
//@ covers: none
//@ unwindset: put_bytes=80; heed::bytes_=260; heed::Table=6; memcmp.0=70; repeat::Repeat=190; Repeat.*try_fold=190; mmap_append=200; enc_tags=6
//@ cbmc: --max-field-sensitivity-array-size 1100
//@ encodes: Store::remove_event, Store::remove_by_id, Store::remove_by_offset, Lmdb::deindex, Store::has_event, Store::event_is_deleted
//@ bounds: two events of different authors with arbitrary created_at in 4096..=4351 each (one arbitrary byte each: earlier, equal, later) are in the store (seeded); remove_event of the first: it is no longer retrievable, carries no deletion marker, the second is still retrievable byte-identical; removing an absent id changes nothing
store_harness!(c18_remove_exactly_one, {
    let store = verif_store();
    // one arbitrary byte each (all three orders of the two times): 64-bit arbitrary times make
    // every index key byte symbolic and did not finish
    let l1: u8 = kani::any();
    let l2: u8 = kani::any();
    let t1: u64 = 0x1000 + l1 as u64;
    let t2: u64 = 0x1000 + l2 as u64;
    let mut b1 = [0u8; 160];
    let n1 = enc_event_img(1, t1, &ID_A, &PK_1, &SIG_0, &[], b"", b"x", &mut b1);
    let mut b2 = [0u8; 160];
    let n2 = enc_event_img(1, t2, &ID_B, &PK_2, &SIG_0, &[], b"", b"y", &mut b2);
    let _ = seed_stored(&store, as_event(&b1[..n1]));
    let _ = seed_stored(&store, as_event(&b2[..n2]));
    ok!(store.remove_event(Id::from_bytes(ID_A)));
    assert!(!has(&store, &ID_A) && has(&store, &ID_B));
    assert!(!ok!(store.event_is_deleted(Id::from_bytes(ID_A))));
    let other = some!(ok!(store.get_event_by_id(Id::from_bytes(ID_B))));
    assert!(other.as_bytes().len() == n2 && other.created_at().as_u64() == t2 && other.content()[0] == b'y');
    ok!(store.remove_event(Id::from_bytes(ID_C)));
    assert!(has(&store, &ID_B));
    let s = ok!(store.stats());
    assert!(s.index_stats.i_index_entries == 1 && s.index_stats.ci_index_entries == 1 && s.index_stats.deleted_index_entries == 0);
    core::mem::forget(s);
    core::mem::forget(store);
});
