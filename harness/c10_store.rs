//@@ property: C10
//@@ crate: db
//@@ mount: pocket-db/src/lib.rs
//@@ also: db_lmdb_helper.rs@pocket-db/src/lmdb/mod.rs, es_helper.rs@pocket-db/src/event_store.rs
use crate::*;
include!("common_db.rs");
include!("img.rs");
include!("store_common.rs");

//@ harness: c10_foreign_delete_by_id
//@ tier: thorough
//@ timeout: 2400
//@ mem: 20
//@ covers: none
//@ unwindset: put_bytes=80; heed::bytes_=260; heed::Table=6; memcmp.0=70; repeat::Repeat=190; Repeat.*try_fold=190; mmap_append=200; read_hex=34; enc_tags=6; c10_foreign=40
//@ cbmc: --max-field-sensitivity-array-size 1100
//@ encodes: Store::handle_deletion_event (called as Store::store_event calls it, inside a write transaction that is dropped on error), Id::read_hex, Store::get_event_by_id, Lmdb::mark_deleted, Store::event_is_deleted
//@ bounds: fresh store; a victim event (kind 1, created_at 1000) by author B is in the store (seeded through EventStore::store_event + Lmdb::index); then a deletion request (kind 5) by another author (B's key with arbitrary first and last byte, differing in at least one of them) names the victim by id in an e tag, with created_at arbitrary in 4096..=4351 (before and after the victim's 1000 is decided by separate instances only): the request is refused as an invalid delete, the victim is still retrievable byte-identical by id, and the victim's id carries no deletion marker
//@ outside: the earlier phases of store_event for the request itself (a full store_event of the request on top of the seeded victim ran out of 20 GB); requests with several tags, address tags, arbitrary surrounding history
store_harness!(c10_foreign_delete_by_id, {
    let store = verif_store();
    let tv: u64 = 1000;
    let mut vb = [0u8; 160];
    let nv = enc_event_img(1, tv, &ID_B, &PK_2, &SIG_0, &[], b"", b"v", &mut vb);
    let _ = seed_stored(&store, as_event(&vb[..nv]));
    // ["e", hex(ID_B = 0xB2 * 32)]
    let mut pool = [0u8; 65];
    pool[0] = b'e';
    let mut i = 0;
    while i < 32 {
        pool[1 + 2 * i] = b'b';
        pool[2 + 2 * i] = b'2';
        i += 1;
    }
    let lo: u8 = kani::any();
    let td: u64 = 0x1000 + lo as u64;
    let mut db = [0u8; 240];
    // the requester: ANY author other than the victim's
    let mut pk = PK_2;
    pk[0] = kani::any();
    pk[31] = kani::any();
    kani::assume(pk[0] != PK_2[0] || pk[31] != PK_2[31]);
    let nd = enc_event_img(5, td, &ID_A, &pk, &SIG_0, &[&[1, 64]], &pool, b"", &mut db);
    // the deletion-request step of Store::store_event, inside its write transaction
    let o = {
        let mut txn = ok!(store.indexes.write_txn());
        let r = store.handle_deletion_event(&mut txn, as_event(&db[..nd]));
        let o = match r {
            Ok(()) => Outcome::Stored,
            Err(e) => {
                let invalid = matches!(e.inner, InnerError::InvalidDelete);
                core::mem::forget(e);
                if invalid { Outcome::InvalidDelete } else { Outcome::Other }
            }
        };
        // store_event returns the error with `?`: the transaction is dropped, not committed
        drop(txn);
        o
    };
    assert!(o == Outcome::InvalidDelete);
    assert!(has(&store, &ID_B));
    let still = some!(ok!(store.get_event_by_id(Id::from_bytes(ID_B))));
    assert!(still.as_bytes().len() == nv && still.created_at().as_u64() == tv && still.pubkey() == Pubkey::from_bytes(PK_2));
    assert!(!ok!(store.event_is_deleted(Id::from_bytes(ID_B))));
    core::mem::forget(store);
});

//@ harness: c10_foreign_id_after_own_target
//@ tier: thorough
//@ timeout: 3000
//@ mem: 20
//@ covers: none
//@ unwindset: put_bytes=80; heed::bytes_=260; heed::Table=6; memcmp.0=70; repeat::Repeat=190; Repeat.*try_fold=190; mmap_append=200; read_hex=34; enc_tags=6; c10_foreign=70
//@ cbmc: --max-field-sensitivity-array-size 1100
//@ encodes: Store::handle_deletion_event (called as Store::store_event calls it, inside a write transaction that is dropped on error), Id::read_hex, Store::get_event_by_id, Store::remove_by_id, Lmdb::mark_deleted, Store::event_is_deleted
//@ bounds: fresh store holding the requester's own event O (author A) and a victim V (author B), both kind 1; a deletion request by A (created_at arbitrary in 4096..=4351) names FIRST its own event O and THEN the victim V in two e tags: the request is refused as an invalid delete wherever the foreign target stands; after the transaction is dropped V and O are both still retrievable and neither id carries a deletion marker
//@ outside: the earlier phases of store_event for the request itself; requests with more than two tags; address tags (c10_addr_names_its_author + c09_param_phase_other_author)
store_harness!(c10_foreign_id_after_own_target, {
    let store = verif_store();
    let mut ob = [0u8; 160];
    let no = enc_event_img(1, 900, &ID_C, &PK_1, &SIG_0, &[], b"", b"o", &mut ob);
    let mut vb = [0u8; 160];
    let nv = enc_event_img(1, 1000, &ID_B, &PK_2, &SIG_0, &[], b"", b"v", &mut vb);
    let _ = seed_stored(&store, as_event(&ob[..no]));
    let _ = seed_stored(&store, as_event(&vb[..nv]));
    // ["e", hex(ID_C = c3 * 32)], ["e", hex(ID_B = b2 * 32)]
    let mut pool = [0u8; 130];
    pool[0] = b'e';
    pool[65] = b'e';
    let mut i = 0;
    while i < 32 {
        pool[1 + 2 * i] = b'c';
        pool[2 + 2 * i] = b'3';
        pool[66 + 2 * i] = b'b';
        pool[67 + 2 * i] = b'2';
        i += 1;
    }
    let lo: u8 = kani::any();
    let td: u64 = 0x1000 + lo as u64;
    let mut db = [0u8; 320];
    let nd = enc_event_img(5, td, &ID_A, &PK_1, &SIG_0, &[&[1, 64], &[1, 64]], &pool, b"", &mut db);
    let o = {
        let mut txn = ok!(store.indexes.write_txn());
        let r = store.handle_deletion_event(&mut txn, as_event(&db[..nd]));
        let o = match r {
            Ok(()) => Outcome::Stored,
            Err(e) => {
                let invalid = matches!(e.inner, InnerError::InvalidDelete);
                core::mem::forget(e);
                if invalid { Outcome::InvalidDelete } else { Outcome::Other }
            }
        };
        // store_event returns the error with `?`: the transaction is dropped, not committed
        drop(txn);
        o
    };
    assert!(o == Outcome::InvalidDelete, "a request naming another author's event after an own target was not refused");
    assert!(has(&store, &ID_B) && has(&store, &ID_C));
    assert!(!ok!(store.event_is_deleted(Id::from_bytes(ID_B))));
    assert!(!ok!(store.event_is_deleted(Id::from_bytes(ID_C))));
    core::mem::forget(store);
});

//@ harness: c10_foreign_address_request
//@ tier: thorough
//@ timeout: 700
//@ mem: 20
//@ covers: any
//@ unwindset: put_bytes=80; heed::bytes_=260; heed::Table=6; memcmp.0=80; repeat::Repeat=190; Repeat.*try_fold=190; mmap_append=200; read_hex=34; enc_tags=6; c10_foreign=80; from_utf8=80; run_utf8_validation=80; splitn=80; next=80; position=80; parse=12; from_str=12
//@ cbmc: --max-field-sensitivity-array-size 1100
//@ encodes: Store::store_event (all phases for a kind-5 event), Store::handle_deletion_event (a tag: Addr::try_from_bytes, author comparison before marking), Lmdb::mark_naddr_deleted, Store::naddr_is_deleted_asof, heed model rollback
//@ bounds: fresh store; a complete Store::store_event of a deletion request (kind 5, created_at arbitrary in 4096..=4351: one arbitrary byte) by author A whose only tag is an `a` tag naming the address 30023:<author B>:x of ANOTHER author: refused as an invalid delete; the request itself is not retrievable afterwards (its index entries were rolled back), B's address carries no deletion marker, and no durable commit carried an effective put/delete
//@ outside: requests naming stored events of another author by id (thorough: c10_foreign_delete_by_id, c10_foreign_id_after_own_target); several tags
store_harness!(c10_foreign_address_request, {
    let store = verif_store();
    // ["a", "30023:" + hex(PK_2 = 22 * 32) + ":x"]
    let mut pool = [0u8; 73];
    pool[0] = b'a';
    put_bytes(&mut pool, 1, b"30023:");
    let mut i = 0;
    while i < 64 {
        pool[7 + i] = b'2';
        i += 1;
    }
    pool[71] = b':';
    pool[72] = b'x';
    let lo: u8 = kani::any();
    let td: u64 = 0x1000 + lo as u64;
    let env = crate::lmdb::verif_db_lmdb_helper::env_of(&store.indexes);
    let commits = heed::verif::mutating_commits(env);
    let mut db = [0u8; 250];
    let nd = enc_event_img(5, td, &ID_A, &PK_1, &SIG_0, &[&[1, 72]], &pool, b"", &mut db);
    let o = outcome(store.store_event(as_event(&db[..nd])));
    kani::cover!(lo == 0);
    assert!(o == Outcome::InvalidDelete, "a deletion request naming another author's address was not refused");
    assert!(heed::verif::mutating_commits(env) == commits);
    assert!(!has(&store, &ID_A));
    let addr = Addr { kind: Kind::from_u16(30023), author: Pubkey::from_bytes(PK_2), d: vec![b'x'] };
    assert!(ok!(store.naddr_is_deleted_asof(&addr)).is_none(), "a refused request left a deletion marker on another author's address");
    core::mem::forget(addr);
    core::mem::forget(store);
});

//@ harness: c10_foreign_address_phase
//@ tier: quick
//@ timeout: 700
//@ mem: 16
//@ covers: any
//@ unwindset: put_bytes=80; heed::bytes_=260; heed::Table=6; memcmp.0=80; repeat::Repeat=190; Repeat.*try_fold=190; mmap_append=200; read_hex=34; enc_tags=6; c10_foreign=80; from_utf8=80; run_utf8_validation=80; splitn=80; next=80; position=80; parse=12; from_str=12
//@ cbmc: --max-field-sensitivity-array-size 1100
//@ encodes: Store::handle_deletion_event (a tag: Addr::try_from_bytes, author comparison BEFORE Lmdb::mark_naddr_deleted and the removal scans), Store::naddr_is_deleted_asof
//@ bounds: fresh store; the deletion phase of Store::store_event (handle_deletion_event inside a write transaction, as store_event calls it) for a request (kind 5, created_at arbitrary in 4096..=4351) by author A whose only tag is an `a` tag naming the address 30023:<author B>:x of ANOTHER author: refused as an invalid delete, and even before the transaction is dropped no deletion marker for B's address is visible in it - the author is compared before anything is marked
//@ outside: the full store_event around it (thorough: c10_foreign_address_request, did not finish in 700 s); requests naming stored events of another author by id (thorough)
store_harness!(c10_foreign_address_phase, {
    let store = verif_store();
    let mut pool = [0u8; 73];
    pool[0] = b'a';
    put_bytes(&mut pool, 1, b"30023:");
    let mut i = 0;
    while i < 64 {
        pool[7 + i] = b'2';
        i += 1;
    }
    pool[71] = b':';
    pool[72] = b'x';
    let lo: u8 = kani::any();
    let td: u64 = 0x1000 + lo as u64;
    let mut db = [0u8; 250];
    let nd = enc_event_img(5, td, &ID_A, &PK_1, &SIG_0, &[&[1, 72]], &pool, b"", &mut db);
    let addr = Addr { kind: Kind::from_u16(30023), author: Pubkey::from_bytes(PK_2), d: vec![b'x'] };
    let mut txn = ok!(store.indexes.write_txn());
    let r = store.handle_deletion_event(&mut txn, as_event(&db[..nd]));
    let o = match r {
        Ok(()) => Outcome::Stored,
        Err(e) => {
            let invalid = matches!(e.inner, InnerError::InvalidDelete);
            core::mem::forget(e);
            if invalid { Outcome::InvalidDelete } else { Outcome::Other }
        }
    };
    kani::cover!(lo == 0);
    assert!(o == Outcome::InvalidDelete, "a deletion request naming another author's address was not refused");
    // nothing was marked inside the transaction either
    let pending = ok!(store.indexes.when_is_naddr_deleted(&txn, &addr));
    assert!(pending.is_none(), "another author's address was marked before the author check");
    drop(txn);
    assert!(ok!(store.naddr_is_deleted_asof(&addr)).is_none());
    core::mem::forget(addr);
    core::mem::forget(store);
});

//@ harness: c10_addr_names_its_author
//@ tier: quick
//@ timeout: 1200
//@ mem: 12
//@ unwindset: read_hex=34; memcmp.0=70; c10_addr=70; from_utf8=80; run_utf8_validation=80; splitn=80; next=80; position=80; parse=12; from_str=12
//@ encodes: Addr::try_from_bytes, Pubkey::read_hex, Kind::try_from_string_bytes (the author check of handle_deletion_event compares this author with the request's)
//@ bounds: the `a` tag value 30023:<64 hex digits>:x with the first and last hex digit of the author arbitrary (either case): parsed author equals the hex value, kind 30023, d = "x" - a request can only ever target the author it names
//@ outside: other kinds/d values (C03 c03_addr_template)
#[kani::proof]
#[kani::unwind(8)]
#[kani::stub(core::panic::Location::caller, stub_caller)]
fn c10_addr_names_its_author() {
    let mut t = [0u8; 72];
    put_bytes(&mut t, 0, b"30023:");
    let mut i = 0;
    while i < 64 {
        t[6 + i] = b'1';
        i += 1;
    }
    t[70] = b':';
    t[71] = b'x';
    let a: u8 = kani::any();
    let b: u8 = kani::any();
    let hexv = |c: u8| -> Option<u8> {
        match c {
            b'0'..=b'9' => Some(c - b'0'),
            b'a'..=b'f' => Some(c - b'a' + 10),
            b'A'..=b'F' => Some(c - b'A' + 10),
            _ => None,
        }
    };
    t[6] = a;
    t[69] = b;
    match Addr::try_from_bytes(&t) {
        Ok(addr) => {
            kani::cover!(a == b'F');
            let (ha, hb) = (some!(hexv(a)), some!(hexv(b)));
            let au = addr.author.as_slice();
            assert!(au[0] == (ha << 4) | 1 && au[31] == 0x10 | hb && au[15] == 0x11);
            assert!(addr.kind.as_u16() == 30023 && addr.d.len() == 1 && addr.d[0] == b'x');
            core::mem::forget(addr);
        }
        Err(e) => {
            assert!(hexv(a).is_none() || hexv(b).is_none());
            core::mem::forget(e);
        }
    }
}
