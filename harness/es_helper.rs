// Helper mounted as a child module of pocket-db/src/event_store.rs (no harnesses).
// Builds an `EventStore` field by field over the model file, mirroring `EventStore::new`,
// so that the value never travels inside a niche-encoded `Result` (see db_lmdb_helper.rs).
use super::*;

/// brand-new store: what `EventStore::new` leaves after creating the file
pub(crate) fn fresh_event_store() -> EventStore {
    mmap_append::verif::set_file(true, EVENT_MAP_CHUNK);
    let event_map_file = unsafe { <std::fs::File as std::os::unix::io::FromRawFd>::from_raw_fd(1000) };
    let event_map = match unsafe { MmapAppend::new(&event_map_file, true) } {
        Ok(m) => m,
        Err(e) => {
            core::mem::forget(e);
            panic!("model map")
        }
    };
    EventStore { event_map_file, event_map_file_len: AtomicUsize::new(EVENT_MAP_CHUNK), event_map }
}

/// the mapped bytes (diagnostic probes only)
pub(crate) fn map_bytes(es: &EventStore) -> &[u8] {
    &es.event_map[..]
}
