//@@ property: C02
//@@ crate: types
//@@ mount: pocket-types/src/lib.rs
use crate::{Event, Id, Kind, Pubkey, Sig, Tags, Time};
include!("common.rs");
include!("texts.rs");
include!("jsonsym.rs");
include!("img.rs");

//@ harness: c02_prior_buffer_compact c02_prior_buffer_deferred
//@ tier: quick
//@ timeout: 1800
//@ mem: 14
//@ unwindset: read_sig=66; memchr=12; parse_json_event=12; json_unescape=40; read_id=34; read_pubkey=34; read_hex=66; memcmp.0=34; copy_text=600; read_u64=22; read_kind=8; burn_string=26; eat_whitespace=6; burn_number=12; patch_site=24; digits=24; fpatch=24; put_bytes=70; enc_tags=6
//@ encodes: Event::from_json, parse_json_event (every byte of the output image)
//@ bounds: one valid text (compact order 1 / 426-byte order 2 with whitespace, two unknown members and deferred content) parsed into a zeroed buffer and into a buffer with arbitrary prior contents: the two events are byte-identical at every index and compare equal
//@ outside: other texts
#[kani::proof]
#[kani::unwind(8)]
#[kani::stub(core::panic::Location::caller, stub_caller)]
fn c02_prior_buffer_compact() {
    prior_buffer(L1);
}
#[kani::proof]
#[kani::unwind(8)]
#[kani::stub(core::panic::Location::caller, stub_caller)]
fn c02_prior_buffer_deferred() {
    prior_buffer(L4);
}
fn prior_buffer(text: &[u8]) {
    let mut za = [0u8; 200];
    let mut zb: [u8; 200] = kani::any();
    let a = Event::from_json(text, &mut za);
    let b = Event::from_json(text, &mut zb);
    let (ea, eb) = match (a, b) {
        (Ok((_, x)), Ok((_, y))) => (x, y),
        (p, q) => {
            core::mem::forget(p);
            core::mem::forget(q);
            panic!("valid text rejected")
        }
    };
    assert!(ea.len() == eb.len());
    let i: usize = kani::any();
    kani::assume(i < ea.len());
    kani::cover!(i == 6);
    assert!(ea.as_bytes()[i] == eb.as_bytes()[i]);
}

//@ harness: c02_layouts_and_parts_agree
//@ tier: quick
//@ timeout: 2400
//@ mem: 16
//@ unwindset: read_sig=66; memchr=12; parse_json_event=12; json_unescape=40; read_id=34; read_pubkey=34; read_hex=66; memcmp.0=34; put_bytes=70; copy_text=600; read_u64=22; read_kind=8; burn_string=26; eat_whitespace=6; burn_number=12; patch_site=24; digits=24; fpatch=24; enc_tags=6
//@ encodes: Event::from_json, Event::from_parts, Event::eq
//@ bounds: the same event written as the compact order-1 text and as the 426-byte order-2 text with whitespace, unknown members and deferred content, each parsed into a buffer with arbitrary prior contents, and built with Event::from_parts into a third such buffer: all three images are byte-identical at every index and compare equal
//@ outside: the texts are concrete (symbolic value bytes are C01's business); other layouts; escape spellings (c02_spellings_agree)
#[kani::proof]
#[kani::unwind(8)]
#[kani::stub(core::panic::Location::caller, stub_caller)]
fn c02_layouts_and_parts_agree() {
    let mut o1: [u8; 200] = kani::any();
    let mut o2: [u8; 200] = kani::any();
    let mut o3: [u8; 200] = kani::any();
    let a = Event::from_json(L1, &mut o1);
    let b = Event::from_json(L4, &mut o2);
    let (ea, eb) = match (a, b) {
        (Ok((_, x)), Ok((_, y))) => (x, y),
        (p, q) => {
            core::mem::forget(p);
            core::mem::forget(q);
            panic!("valid text rejected")
        }
    };
    // the same event from parts
    let pool = [b'e', b'a', b'b', b'p'];
    let shape: [&[usize]; 3] = [&[1, 2], &[1], &[]];
    let mut tbuf = [0u8; 32];
    let tl = enc_tags(&shape, &pool, &mut tbuf);
    let ts: &[u8] = &tbuf[..tl];
    let tags: &Tags = unsafe { &*(ts as *const [u8] as *const Tags) };
    let content = [b'h', b'i', b'\n'];
    let c = Event::from_parts(Id::from_bytes(ID_BIN), Kind::from_u16(30023), Pubkey::from_bytes(PK_BIN), Sig::from_bytes(SIG_BIN),
                              tags, Time::from_u64(1681778790), &content, &mut o3);
    let ec = match c {
        Ok(x) => x,
        Err(e) => {
            core::mem::forget(e);
            panic!("from_parts failed")
        }
    };
    assert!(ea.len() == eb.len() && ea.len() == ec.len());
    let k: usize = kani::any();
    kani::assume(k < ea.len());
    kani::cover!(k == 7);
    assert!(ea.as_bytes()[k] == eb.as_bytes()[k]);
    assert!(ea.as_bytes()[k] == ec.as_bytes()[k]);
}

//@ harness: c02_spellings_agree
//@ tier: quick
//@ timeout: 1800
//@ mem: 14
//@ unwindset: read_sig=66; memchr=12; parse_json_event=12; json_unescape=40; read_id=34; read_pubkey=34; read_hex=66; memcmp.0=34; copy_text=600; read_u64=22; read_kind=8; burn_string=26; eat_whitespace=6; burn_number=12; patch_site=24; digits=24; fpatch=24; put_bytes=70; enc_tags=6
//@ encodes: json_unescape, read_content, Event::from_json
//@ bounds: two compact texts that differ only in how the content string is spelled (every character escaped as \uXXXX or two-character escape vs. written literally), parsed into buffers with arbitrary prior contents: byte-identical
#[kani::proof]
#[kani::unwind(8)]
#[kani::stub(core::panic::Location::caller, stub_caller)]
fn c02_spellings_agree() {
    let mut o1: [u8; 200] = kani::any();
    let mut o2: [u8; 200] = kani::any();
    let a = Event::from_json(SP_A, &mut o1);
    let b = Event::from_json(SP_B, &mut o2);
    let (ea, eb) = match (a, b) {
        (Ok((_, x)), Ok((_, y))) => (x, y),
        (p, q) => {
            core::mem::forget(p);
            core::mem::forget(q);
            panic!("valid text rejected")
        }
    };
    assert!(ea.len() == eb.len());
    let k: usize = kani::any();
    kani::assume(k < ea.len());
    kani::cover!(k == 7);
    assert!(ea.as_bytes()[k] == eb.as_bytes()[k]);
}

/// reference escaper for one ASCII byte (NIP-01 canonical escapes), returns the length
fn ref_escape(c: u8, out: &mut [u8; 6]) -> usize {
    let two = |out: &mut [u8; 6], x: u8| {
        out[0] = b'\\';
        out[1] = x;
        2
    };
    match c {
        0x08 => two(out, b'b'),
        0x09 => two(out, b't'),
        0x0A => two(out, b'n'),
        0x0C => two(out, b'f'),
        0x0D => two(out, b'r'),
        0x22 => two(out, b'"'),
        0x5C => two(out, b'\\'),
        _ if c < 0x20 => {
            let hexd = |n: u8| if n < 10 { b'0' + n } else { b'a' + (n - 10) };
            out[0] = b'\\';
            out[1] = b'u';
            out[2] = b'0';
            out[3] = b'0';
            out[4] = hexd(c >> 4);
            out[5] = hexd(c & 15);
            6
        }
        _ => {
            out[0] = c;
            1
        }
    }
}

//@ harness: c02_as_json_roundtrip
//@ tier: quick
//@ timeout: 3000
//@ mem: 20
//@ unwindset: read_sig=66; memchr=12; parse_json_event=12; json_unescape=40; read_id=34; read_pubkey=34; read_hex=66; memcmp.0=34; write_hex=66; as_json=70; push=130; c02_as_json=130; extend=140; json_escape=8; copy_text=600; read_u64=22; read_kind=8; burn_string=26; eat_whitespace=6; burn_number=12; patch_site=24; digits=24; fpatch=24; put_bytes=70; enc_tags=6
//@ encodes: Event::as_json, Tags::as_json, json_escape, Event::from_json, json_unescape
//@ bounds: an event held by the library (image from the reference encoder) with tags [["e", s(1)], []] and a 2-byte content; the tag byte and the second content byte are arbitrary ASCII 0x00..=0x7f incl. every control character, quote and backslash, the first content byte is a concrete control character (0x1f), kind 30023, created_at 1681778790: the serialised text equals the reference writer's text byte for byte (canonical NIP-01 escapes), and parsing it back gives a byte-identical event
//@ outside: non-ASCII strings, symbolic integers (format! of a symbolic u64 is a division kernel that does not finish in budget), longer strings
#[kani::proof]
#[kani::unwind(8)]
#[kani::stub(core::panic::Location::caller, stub_caller)]
fn c02_as_json_roundtrip() {
    let tv: u8 = kani::any();
    let c1: u8 = kani::any();
    kani::assume(tv < 0x80 && c1 < 0x80);
    let pool = [b'e', tv];
    let shape: [&[usize]; 2] = [&[1, 1], &[]];
    let content = [0x1fu8, c1];
    let mut img = [0u8; 200];
    let n = enc_event_img(30023, 1681778790, &ID_BIN, &PK_BIN, &SIG_BIN, &shape, &pool, &content, &mut img);
    let is_: &[u8] = &img[..n];
    let ev: &Event = unsafe { &*(is_ as *const [u8] as *const Event) };
    let json = match ev.as_json() {
        Ok(j) => j,
        Err(e) => {
            core::mem::forget(e);
            panic!("as_json failed")
        }
    };
    // reference text
    let mut r = [0u8; 420];
    let mut p = 0;
    let mut push = |r: &mut [u8; 420], p: &mut usize, s: &[u8]| {
        let mut i = 0;
        while i < s.len() {
            r[*p] = s[i];
            *p += 1;
            i += 1;
        }
    };
    push(&mut r, &mut p, b"{\"id\":\"");
    push(&mut r, &mut p, ID_HEX);
    push(&mut r, &mut p, b"\",\"pubkey\":\"");
    push(&mut r, &mut p, PK_HEX);
    push(&mut r, &mut p, b"\",\"kind\":30023,\"created_at\":1681778790,\"tags\":[[\"e\",\"");
    let mut eb = [0u8; 6];
    let l = ref_escape(tv, &mut eb);
    push(&mut r, &mut p, &eb[..l]);
    push(&mut r, &mut p, b"\"],[]],\"content\":\"\\u001f");
    let l = ref_escape(c1, &mut eb);
    push(&mut r, &mut p, &eb[..l]);
    push(&mut r, &mut p, b"\",\"sig\":\"");
    push(&mut r, &mut p, SIG_HEX);
    push(&mut r, &mut p, b"\"}");
    assert!(json.len() == p);
    let i: usize = kani::any();
    kani::assume(i < p);
    kani::cover!(c1 == b'"' && tv == 0x00);
    assert!(json[i] == r[i]);
    // and back
    let mut out: [u8; 200] = kani::any();
    let (consumed, ev2) = match Event::from_json(&json, &mut out) {
        Ok(x) => x,
        Err(e) => {
            core::mem::forget(e);
            panic!("own JSON rejected")
        }
    };
    assert!(consumed == p && ev2.len() == n);
    let k: usize = kani::any();
    kani::assume(k < n);
    assert!(ev2.as_bytes()[k] == img[k]);
    core::mem::forget(json);
}
